// Package nd is the harness API: nondeterministic inputs, assumptions, assertions.
// The symbolic engine (symgo) intercepts every function below by name; the bodies
// here are the *native* semantics used when a witness is replayed on the real build.
package nd

import (
	"encoding/json"
	"fmt"
	"math/big"
	"os"
	"sort"
	"strings"
	"time"

	"cosmossdk.io/math"
	"github.com/cosmos/cosmos-sdk/codec"
	codectypes "github.com/cosmos/cosmos-sdk/codec/types"
)

// OpaqueErr is the error type the engine uses for errors built by stubbed constructors.
type OpaqueErr struct{ Msg string }

func (e OpaqueErr) Error() string { return e.Msg }

// Cdc wraps the real protobuf codec; in the engine its methods are stubs (A-codec).
type Cdc struct{ codec.BinaryCodec }

func NewCdc() Cdc {
	return Cdc{codec.NewProtoCodec(codectypes.NewInterfaceRegistry())}
}

// ---- native replay state ----

type Witness struct {
	Harness    string            `json:"harness"`
	Obligation string            `json:"obligation"`
	Kind       string            `json:"kind"`
	Vars       map[string]string `json:"vars"`
	Mode       string            `json:"mode"`
	Expect     map[string]string `json:"expect"`
	Tags       []string          `json:"tags"`
	Thorough   bool              `json:"thorough"`
}

type Result struct {
	Failed    []string          // obligation ids whose assertion failed natively
	Notes     map[string]string // id -> note
	Reached   []string
	Assumes   int
	BadAssume []string
	Observed  map[string]string
	Tags      []string
}

var (
	W   *Witness
	Res *Result
)

func Begin(w *Witness) {
	W = w
	Res = &Result{Notes: map[string]string{}, Observed: map[string]string{}}
}

func LoadWitness(path string) (*Witness, error) {
	b, err := os.ReadFile(path)
	if err != nil {
		return nil, err
	}
	var w Witness
	if err := json.Unmarshal(b, &w); err != nil {
		return nil, err
	}
	return &w, nil
}

func val(name string) *big.Rat {
	s, ok := W.Vars[name]
	if !ok {
		panic("nd: witness has no value for " + name)
	}
	r, ok := new(big.Rat).SetString(s)
	if !ok {
		panic("nd: bad witness value for " + name + ": " + s)
	}
	return r
}

func Symbolic() bool { return false }
func Ideal() bool    { return W != nil && W.Mode == "ideal-Q" }

func bigOf(name string) *big.Int {
	r := val(name)
	if !r.IsInt() {
		panic(fmt.Sprintf("nd: witness value of %s is not an integer: %s (ideal-mode witness must be scaled before replay)", name, r))
	}
	return new(big.Int).Set(r.Num())
}

func IntRange(name, lo, hi string) math.Int {
	if Ideal() {
		// rational model value: round down to a whole base unit
		r := val(name)
		return math.NewIntFromBigInt(new(big.Int).Div(r.Num(), r.Denom()))
	}
	return math.NewIntFromBigInt(bigOf(name))
}

func DecRange(name, lo, hi string) math.LegacyDec {
	if Ideal() {
		r := val(name)
		s := new(big.Rat).Mul(r, new(big.Rat).SetInt(new(big.Int).Exp(big.NewInt(10), big.NewInt(18), nil)))
		// rational model value: truncate to 18 decimals
		return math.LegacyNewDecFromBigIntWithPrec(new(big.Int).Div(s.Num(), s.Denom()), 18)
	}
	return math.LegacyNewDecFromBigIntWithPrec(bigOf(name), 18)
}

func NilDec() math.LegacyDec { return math.LegacyDec{} }
func NilInt() math.Int       { return math.Int{} }

func Int64Range(name string, lo, hi int64) int64    { return bigOf(name).Int64() }
func Uint64Range(name string, lo, hi uint64) uint64 { return bigOf(name).Uint64() }
func DurRange(name string, lo, hi int64) time.Duration {
	return time.Duration(bigOf(name).Int64())
}

// TimeRange: bounds in Unix seconds, value in nanoseconds.
func TimeRange(name string, loUnix, hiUnix int64) time.Time {
	ns := bigOf(name)
	q, r := new(big.Int).DivMod(ns, big.NewInt(1000000000), new(big.Int))
	return time.Unix(q.Int64(), r.Int64()).UTC()
}

func Bool(name string) bool { return val(name).Sign() != 0 }

func Choice(name string, n int) int {
	if n <= 1 {
		return 0
	}
	return int(bigOf("choice:" + name).Int64())
}

func Assume(cond bool) {
	Res.Assumes++
	if !cond {
		Res.BadAssume = append(Res.BadAssume, fmt.Sprintf("assumption #%d false under the witness", Res.Assumes))
		panic(AssumeFailed{})
	}
}

type AssumeFailed struct{}

func Assert(id string, cond bool) {
	if !cond {
		Res.Failed = append(Res.Failed, id)
	}
}

func Fail(id, note string) {
	Res.Failed = append(Res.Failed, id)
	Res.Notes[id] = note
	panic(PathEnd{})
}

type PathEnd struct{}

func Reach(id string) { Res.Reached = append(Res.Reached, id) }
func Tag(t string)    { Res.Tags = append(Res.Tags, t) }
func Note(s string)   { Res.Notes["note"] += s + "; " }

func And(xs ...bool) bool {
	for _, x := range xs {
		if !x {
			return false
		}
	}
	return true
}
func Or(xs ...bool) bool {
	for _, x := range xs {
		if x {
			return true
		}
	}
	return false
}
func Not(a bool) bool        { return !a }
func Implies(a, b bool) bool { return !a || b }
func IteInt(c bool, a, b math.Int) math.Int {
	if c {
		return a
	}
	return b
}
func IteDec(c bool, a, b math.LegacyDec) math.LegacyDec {
	if c {
		return a
	}
	return b
}

func ObserveInt(key string, v math.Int) { Res.Observed[key] = v.String() }
func ObserveDec(key string, v math.LegacyDec) {
	if Ideal() {
		r := new(big.Rat).SetFrac(v.BigInt(), new(big.Int).Exp(big.NewInt(10), big.NewInt(18), nil))
		Res.Observed[key] = ratString(r)
		return
	}
	Res.Observed[key] = v.BigInt().String() // scaled integer, as in exact-Z
}
func ObserveBool(key string, v bool) {
	if v {
		Res.Observed[key] = "1"
	} else {
		Res.Observed[key] = "0"
	}
}
func ObserveTime(key string, t time.Time) {
	ns := new(big.Int).Mul(big.NewInt(t.Unix()), big.NewInt(1000000000))
	ns.Add(ns, big.NewInt(int64(t.Nanosecond())))
	Res.Observed[key] = ns.String()
}

func ratString(r *big.Rat) string {
	if r.IsInt() {
		return r.Num().String()
	}
	return r.String()
}

// Summary renders the native result for the replay driver.
func (r *Result) Summary() string {
	var sb strings.Builder
	sort.Strings(r.Failed)
	fmt.Fprintf(&sb, "failed=%v reached=%d badassume=%v", r.Failed, len(r.Reached), r.BadAssume)
	return sb.String()
}

// Thorough reports the tier of the run (native replay: taken from the witness).
func Thorough() bool { return W != nil && W.Thorough }

// Hint suggests a simplifying regime to the engine's search for a concrete counterexample
// (never used to discharge anything). No-op natively.
func Hint(cond bool) {}

// NearDec: equality of two decimals up to the tolerance tol that the property grants (whole
// base units of truncation plus the relative error of the 18-digit library). The same
// tolerance applies in the engine (ideal-Q: the identity must hold over the reals up to tol)
// and in the native replay, so an ideal counterexample exceeds what rounding can explain.
func NearDec(a, b, tol math.LegacyDec) bool { return a.Sub(b).Abs().LTE(tol) }

// EqIdeal: a == b exactly over the reals in ideal-Q mode (used for cut lemmas that hold
// without any truncation); natively, and in the other modes, equality up to tol.
func EqIdeal(a, b, tol math.LegacyDec) bool { return a.Sub(b).Abs().LTE(tol) }

// LeqDec: a <= b (ideal: exact; native: up to tol).
func LeqDec(a, b, tol math.LegacyDec) bool { return a.LTE(b.Add(tol)) }

// Overflow switches the engine's modelling of the fixed-point library's overflow panics
// (bit length > 256 / 315) on or off for the rest of the path. No-op natively (the real library panics by itself).
func Overflow(on bool) {}

// UFWindow asks the engine to relate each new application of an abstracted nonlinear
// operator to the n previous ones by monotonicity lemmas (more precise, slower). No-op natively.
func UFWindow(n int) {}
