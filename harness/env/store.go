// Package env is the environment model under which the real keeper runs, written
// in plain Go so that the same code is (i) executed symbolically by symgo and
// (ii) linked natively for replay (DESIGN.md §3.8).
package env

import (
	"bytes"
	"context"
	"errors"

	corestore "cosmossdk.io/core/store"
)

// KV is one store record.
type KV struct {
	K, V []byte
}

// Store: the module KV store as a sorted key/value list (A-store: ordered map,
// end-exclusive ranges, iterators are snapshots taken at creation like cachekv).
type Store struct {
	Items  []KV
	Writes int
}

type StoreService struct{ S *Store }

func (s StoreService) OpenKVStore(context.Context) corestore.KVStore { return s.S }

var errNilKey = errors.New("key is nil or empty")

// find returns the position of key and whether it is present.
func (s *Store) find(key []byte) (int, bool) {
	for i := range s.Items {
		c := bytes.Compare(s.Items[i].K, key)
		if c == 0 {
			return i, true
		}
		if c > 0 {
			return i, false
		}
	}
	return len(s.Items), false
}

func (s *Store) Get(key []byte) ([]byte, error) {
	if len(key) == 0 {
		return nil, errNilKey
	}
	i, ok := s.find(key)
	if !ok {
		return nil, nil
	}
	return s.Items[i].V, nil
}

func (s *Store) Has(key []byte) (bool, error) {
	if len(key) == 0 {
		return false, errNilKey
	}
	_, ok := s.find(key)
	return ok, nil
}

func (s *Store) Set(key, value []byte) error {
	if len(key) == 0 {
		return errNilKey
	}
	if value == nil {
		return errors.New("value is nil")
	}
	s.Writes++
	k := append([]byte(nil), key...)
	i, ok := s.find(key)
	if ok {
		s.Items[i].V = value
		return nil
	}
	s.Items = append(s.Items, KV{})
	copy(s.Items[i+1:], s.Items[i:])
	s.Items[i] = KV{K: k, V: value}
	return nil
}

func (s *Store) Delete(key []byte) error {
	if len(key) == 0 {
		return errNilKey
	}
	i, ok := s.find(key)
	if !ok {
		return nil
	}
	s.Writes++
	s.Items = append(s.Items[:i:i], s.Items[i+1:]...)
	return nil
}

func (s *Store) rangeItems(start, end []byte) []KV {
	var out []KV
	for _, it := range s.Items {
		if start != nil && bytes.Compare(it.K, start) < 0 {
			continue
		}
		if end != nil && bytes.Compare(it.K, end) >= 0 {
			continue
		}
		out = append(out, it)
	}
	return out
}

func (s *Store) Iterator(start, end []byte) (corestore.Iterator, error) {
	return &Iter{items: s.rangeItems(start, end), start: start, end: end}, nil
}

func (s *Store) ReverseIterator(start, end []byte) (corestore.Iterator, error) {
	it := s.rangeItems(start, end)
	for i, j := 0, len(it)-1; i < j; i, j = i+1, j-1 {
		it[i], it[j] = it[j], it[i]
	}
	return &Iter{items: it, start: start, end: end}, nil
}

// Clone copies the store (values are immutable byte strings, shared).
func (s *Store) Clone() *Store {
	return &Store{Items: append([]KV(nil), s.Items...)}
}

// Iter is a snapshot iterator.
type Iter struct {
	items      []KV
	pos        int
	start, end []byte
}

func (it *Iter) Domain() ([]byte, []byte) { return it.start, it.end }
func (it *Iter) Valid() bool              { return it.pos < len(it.items) }
func (it *Iter) Next() {
	if !it.Valid() {
		panic("iterator is invalid")
	}
	it.pos++
}
func (it *Iter) Key() []byte {
	if !it.Valid() {
		panic("iterator is invalid")
	}
	return it.items[it.pos].K
}
func (it *Iter) Value() []byte {
	if !it.Valid() {
		panic("iterator is invalid")
	}
	return it.items[it.pos].V
}
func (it *Iter) Error() error { return nil }
func (it *Iter) Close() error { return nil }
