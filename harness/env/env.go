package env

import (
	"context"
	"errors"
	"sort"
	"time"

	"cosmossdk.io/math"
	"github.com/cosmos/cosmos-sdk/codec"
	sdk "github.com/cosmos/cosmos-sdk/types"
	stakingtypes "github.com/cosmos/cosmos-sdk/x/staking/types"

	"hv/nd"

	"github.com/terra-money/alliance/x/alliance/keeper"
	alliancetypes "github.com/terra-money/alliance/x/alliance/types"
)

// ---------------------------------------------------------------- accounts

const (
	FeeCollector = "fee_collector"
	BondDenom    = "stake"
)

// Module account addresses: fixed 20-byte strings (A-bank: the address derivation
// of x/auth is not part of any property).
func modAddr(tag byte) sdk.AccAddress {
	b := make([]byte, 20)
	for i := range b {
		b[i] = tag
	}
	return b
}

var moduleTags = map[string]byte{
	alliancetypes.ModuleName:       0xA1,
	alliancetypes.RewardsPoolName:  0xA2,
	FeeCollector:                   0xA3,
	stakingtypes.BondedPoolName:    0xA4,
	stakingtypes.NotBondedPoolName: 0xA5,
	"gov":                          0xA6,
	"distribution":                 0xA7,
}

type Account struct{}

func (Account) GetModuleAddress(name string) sdk.AccAddress {
	t, ok := moduleTags[name]
	if !ok {
		return nil
	}
	return modAddr(t)
}
func (Account) GetAccount(context.Context, sdk.AccAddress) sdk.AccountI     { return nil }
func (Account) GetModuleAccount(context.Context, string) sdk.ModuleAccountI { return nil }

// ---------------------------------------------------------------- bank (A-bank)

var ErrInsufficientFunds = errors.New("insufficient funds")

// ErrInvalidCoins: x/bank (v0.50.4 keeper/send.go subUnlockedCoins/addCoins) rejects coin sets that
// are not valid: unsorted, duplicate denominations, or a non-positive amount.
var ErrInvalidCoins = errors.New("invalid coins")

type Bank struct {
	Bal    map[string]math.Int // string(addr)+"/"+denom
	Supply map[string]math.Int
	Denoms []string
	Ak     Account
}

func NewBank() *Bank {
	return &Bank{Bal: map[string]math.Int{}, Supply: map[string]math.Int{}}
}

func bkey(a sdk.AccAddress, denom string) string { return string(a) + "/" + denom }

func (b *Bank) noteDenom(d string) {
	for _, x := range b.Denoms {
		if x == d {
			return
		}
	}
	b.Denoms = append(b.Denoms, d)
	sort.Strings(b.Denoms)
}

func (b *Bank) Balance(a sdk.AccAddress, denom string) math.Int {
	if v, ok := b.Bal[bkey(a, denom)]; ok {
		return v
	}
	return math.ZeroInt()
}

func (b *Bank) SetBalance(a sdk.AccAddress, denom string, v math.Int) {
	b.noteDenom(denom)
	b.Bal[bkey(a, denom)] = v
}

func (b *Bank) SupplyOf(denom string) math.Int {
	if v, ok := b.Supply[denom]; ok {
		return v
	}
	return math.ZeroInt()
}

// Fund creates coins out of thin air (harness set-up; adjusts supply).
func (b *Bank) Fund(a sdk.AccAddress, denom string, v math.Int) {
	b.SetBalance(a, denom, b.Balance(a, denom).Add(v))
	b.Supply[denom] = b.SupplyOf(denom).Add(v)
}

func (b *Bank) send(from, to sdk.AccAddress, amt sdk.Coins) error {
	if !amt.IsValid() {
		return ErrInvalidCoins
	}
	for _, c := range amt {
		if b.Balance(from, c.Denom).LT(c.Amount) {
			return ErrInsufficientFunds
		}
	}
	for _, c := range amt {
		b.SetBalance(from, c.Denom, b.Balance(from, c.Denom).Sub(c.Amount))
		b.SetBalance(to, c.Denom, b.Balance(to, c.Denom).Add(c.Amount))
	}
	return nil
}

func (b *Bank) mod(name string) sdk.AccAddress {
	a := b.Ak.GetModuleAddress(name)
	if a == nil {
		panic("module account " + name + " does not exist")
	}
	return a
}

func (b *Bank) MintCoins(_ context.Context, moduleName string, amt sdk.Coins) error {
	a := b.mod(moduleName)
	if !amt.IsValid() {
		return ErrInvalidCoins
	}
	for _, c := range amt {
		b.Fund(a, c.Denom, c.Amount)
	}
	return nil
}

func (b *Bank) BurnCoins(_ context.Context, moduleName string, amt sdk.Coins) error {
	a := b.mod(moduleName)
	if !amt.IsValid() {
		return ErrInvalidCoins
	}
	for _, c := range amt {
		if b.Balance(a, c.Denom).LT(c.Amount) {
			return ErrInsufficientFunds
		}
	}
	for _, c := range amt {
		b.SetBalance(a, c.Denom, b.Balance(a, c.Denom).Sub(c.Amount))
		b.Supply[c.Denom] = b.SupplyOf(c.Denom).Sub(c.Amount)
	}
	return nil
}

func (b *Bank) SendCoinsFromModuleToModule(_ context.Context, s, r string, amt sdk.Coins) error {
	return b.send(b.mod(s), b.mod(r), amt)
}
func (b *Bank) SendCoinsFromAccountToModule(_ context.Context, s sdk.AccAddress, r string, amt sdk.Coins) error {
	return b.send(s, b.mod(r), amt)
}
func (b *Bank) SendCoinsFromModuleToAccount(_ context.Context, s string, r sdk.AccAddress, amt sdk.Coins) error {
	return b.send(b.mod(s), r, amt)
}
func (b *Bank) GetBalance(_ context.Context, a sdk.AccAddress, denom string) sdk.Coin {
	return sdk.Coin{Denom: denom, Amount: b.Balance(a, denom)}
}
func (b *Bank) GetAllBalances(_ context.Context, a sdk.AccAddress) sdk.Coins {
	var out sdk.Coins
	for _, d := range b.Denoms {
		v := b.Balance(a, d)
		if v.IsPositive() {
			out = append(out, sdk.Coin{Denom: d, Amount: v})
		}
	}
	return out
}
func (b *Bank) SpendableCoins(ctx context.Context, a sdk.AccAddress) sdk.Coins {
	return b.GetAllBalances(ctx, a)
}

func (b *Bank) Clone() *Bank {
	n := &Bank{Bal: map[string]math.Int{}, Supply: map[string]math.Int{}, Denoms: append([]string(nil), b.Denoms...)}
	for k, v := range b.Bal {
		n.Bal[k] = v
	}
	for k, v := range b.Supply {
		n.Supply[k] = v
	}
	return n
}

// ---------------------------------------------------------------- distribution (A-distr)

type Distr struct {
	Pending map[string]sdk.Coins // string(del)+"/"+string(val)
	Bank    *Bank
}

func dkey(d sdk.AccAddress, v sdk.ValAddress) string { return string(d) + "/" + string(v) }

// Allocate adds pending rewards (already held by the distribution module account).
func (d *Distr) Allocate(del sdk.AccAddress, val sdk.ValAddress, c sdk.Coins) {
	for _, x := range c {
		d.Bank.Fund(d.Bank.mod("distribution"), x.Denom, x.Amount)
	}
	d.Pending[dkey(del, val)] = append(append(sdk.Coins(nil), d.Pending[dkey(del, val)]...), c...)
}

func (d *Distr) WithdrawDelegationRewards(_ context.Context, del sdk.AccAddress, val sdk.ValAddress) (sdk.Coins, error) {
	c := d.Pending[dkey(del, val)]
	delete(d.Pending, dkey(del, val))
	if len(c) == 0 {
		return sdk.Coins{}, nil
	}
	if err := d.Bank.send(d.Bank.mod("distribution"), del, c); err != nil {
		return nil, err
	}
	return c, nil
}

func (d *Distr) Clone(b *Bank) *Distr {
	n := &Distr{Pending: map[string]sdk.Coins{}, Bank: b}
	for k, v := range d.Pending {
		n.Pending[k] = append(sdk.Coins(nil), v...)
	}
	return n
}

// ---------------------------------------------------------------- staking (A-staking)

type Staking struct {
	Vals      map[string]*stakingtypes.Validator // by operator bech32
	ValOrder  []string
	Dels      map[string]*stakingtypes.Delegation // dkey
	DelOrder  []string
	Bank      *Bank
	Distr     *Distr
	Hooks     stakingtypes.StakingHooks // the alliance hooks (distribution's are modelled inline)
	Unbonding time.Duration
	HookLog   []string
}

func (s *Staking) UnbondingTime(context.Context) (time.Duration, error) { return s.Unbonding, nil }
func (s *Staking) BondDenom(context.Context) (string, error)            { return BondDenom, nil }

func (s *Staking) GetValidator(_ context.Context, addr sdk.ValAddress) (stakingtypes.Validator, error) {
	v, ok := s.Vals[addr.String()]
	if !ok {
		return stakingtypes.Validator{}, stakingtypes.ErrNoValidatorFound
	}
	return *v, nil
}

func (s *Staking) setValidator(v stakingtypes.Validator) {
	if _, ok := s.Vals[v.OperatorAddress]; !ok {
		s.ValOrder = append(s.ValOrder, v.OperatorAddress)
		sort.Strings(s.ValOrder)
	}
	vv := v
	s.Vals[v.OperatorAddress] = &vv
}

func (s *Staking) AddValidator(v stakingtypes.Validator) { s.setValidator(v) }

func (s *Staking) GetAllValidators(context.Context) ([]stakingtypes.Validator, error) {
	var out []stakingtypes.Validator
	for _, k := range s.ValOrder {
		out = append(out, *s.Vals[k])
	}
	return out, nil
}

func (s *Staking) GetDelegation(_ context.Context, del sdk.AccAddress, val sdk.ValAddress) (stakingtypes.Delegation, error) {
	d, ok := s.Dels[dkey(del, val)]
	if !ok {
		return stakingtypes.Delegation{}, stakingtypes.ErrNoDelegation
	}
	return *d, nil
}

func (s *Staking) setDelegation(del sdk.AccAddress, val sdk.ValAddress, d stakingtypes.Delegation) {
	k := dkey(del, val)
	if _, ok := s.Dels[k]; !ok {
		s.DelOrder = append(s.DelOrder, k)
		sort.Strings(s.DelOrder)
	}
	dd := d
	s.Dels[k] = &dd
}

// SetDelegationRaw installs a delegation record (harness set-up).
func (s *Staking) SetDelegationRaw(del sdk.AccAddress, val sdk.ValAddress, d stakingtypes.Delegation) {
	s.setDelegation(del, val, d)
}

func (s *Staking) removeDelegation(del sdk.AccAddress, val sdk.ValAddress) {
	k := dkey(del, val)
	delete(s.Dels, k)
	for i, x := range s.DelOrder {
		if x == k {
			s.DelOrder = append(s.DelOrder[:i:i], s.DelOrder[i+1:]...)
			break
		}
	}
}

func (s *Staking) IterateDelegatorDelegations(_ context.Context, del sdk.AccAddress, cb func(stakingtypes.Delegation) bool) error {
	p := string(del) + "/"
	for _, k := range append([]string(nil), s.DelOrder...) {
		if len(k) >= len(p) && k[:len(p)] == p {
			if cb(*s.Dels[k]) {
				break
			}
		}
	}
	return nil
}

func (s *Staking) TotalBondedTokens(context.Context) (math.Int, error) {
	return s.Bank.Balance(s.Bank.mod(stakingtypes.BondedPoolName), BondDenom), nil
}

func (s *Staking) GetDelegatorBonded(ctx context.Context, del sdk.AccAddress) (math.Int, error) {
	bonded := math.LegacyZeroDec()
	_ = s.IterateDelegatorDelegations(ctx, del, func(d stakingtypes.Delegation) bool {
		v := s.Vals[d.ValidatorAddress]
		if v != nil && v.IsBonded() {
			bonded = bonded.Add(v.TokensFromShares(d.Shares))
		}
		return false
	})
	return bonded.RoundInt(), nil
}

func (s *Staking) hookBeforeSharesModified(ctx context.Context, del sdk.AccAddress, val sdk.ValAddress) error {
	// x/distribution hook: withdraw the delegator's pending rewards to its account
	if s.Distr != nil {
		if _, err := s.Distr.WithdrawDelegationRewards(ctx, del, val); err != nil {
			return err
		}
	}
	return s.Hooks.BeforeDelegationSharesModified(ctx, del, val)
}

// Delegate: transcription of x/staking keeper.Delegate (v0.50.4) without the power index.
func (s *Staking) Delegate(ctx context.Context, delAddr sdk.AccAddress, bondAmt math.Int, tokenSrc stakingtypes.BondStatus,
	validator stakingtypes.Validator, subtractAccount bool,
) (math.LegacyDec, error) {
	if validator.InvalidExRate() {
		return math.LegacyZeroDec(), stakingtypes.ErrDelegatorShareExRateInvalid
	}
	valbz, err := sdk.ValAddressFromBech32(validator.GetOperator())
	if err != nil {
		return math.LegacyZeroDec(), err
	}
	delegation, err := s.GetDelegation(ctx, delAddr, valbz)
	if err == nil {
		err = s.hookBeforeSharesModified(ctx, delAddr, valbz)
	} else {
		delegation = stakingtypes.NewDelegation(delAddr.String(), validator.GetOperator(), math.LegacyZeroDec())
		err = s.Hooks.BeforeDelegationCreated(ctx, delAddr, valbz)
	}
	if err != nil {
		return math.LegacyZeroDec(), err
	}
	if subtractAccount {
		if tokenSrc == stakingtypes.Bonded {
			panic("delegation token source cannot be bonded")
		}
		sendName := stakingtypes.NotBondedPoolName
		if validator.IsBonded() {
			sendName = stakingtypes.BondedPoolName
		}
		coins := sdk.NewCoins(sdk.NewCoin(BondDenom, bondAmt))
		if err := s.Bank.send(delAddr, s.Bank.mod(sendName), coins); err != nil {
			return math.LegacyDec{}, err
		}
	} else {
		panic("env.Staking.Delegate: only subtractAccount=true is modelled")
	}
	// the stored validator is authoritative for tokens/shares (the SDK uses the argument;
	// alliance passes a freshly read copy)
	validator, newShares := validator.AddTokensFromDel(bondAmt)
	s.setValidator(validator)
	delegation.Shares = delegation.Shares.Add(newShares)
	s.setDelegation(delAddr, valbz, delegation)
	if err := s.Hooks.AfterDelegationModified(ctx, delAddr, valbz); err != nil {
		return newShares, err
	}
	return newShares, nil
}

func (s *Staking) ValidateUnbondAmount(ctx context.Context, delAddr sdk.AccAddress, valAddr sdk.ValAddress, amt math.Int) (math.LegacyDec, error) {
	validator, err := s.GetValidator(ctx, valAddr)
	if err != nil {
		return math.LegacyDec{}, err
	}
	del, err := s.GetDelegation(ctx, delAddr, valAddr)
	if err != nil {
		return math.LegacyDec{}, err
	}
	shares, err := validator.SharesFromTokens(amt)
	if err != nil {
		return shares, err
	}
	sharesTruncated, err := validator.SharesFromTokensTruncated(amt)
	if err != nil {
		return shares, err
	}
	delShares := del.GetShares()
	if sharesTruncated.GT(delShares) {
		return shares, nd.OpaqueErr{Msg: "invalid shares amount"}
	}
	if shares.GT(delShares) {
		shares = delShares
	}
	return shares, nil
}

// Unbond: transcription of x/staking keeper.Unbond (v0.50.4) without jailing of operators
// (the module account is never a validator operator) and without validator removal.
func (s *Staking) Unbond(ctx context.Context, delAddr sdk.AccAddress, valAddr sdk.ValAddress, shares math.LegacyDec) (math.Int, error) {
	delegation, err := s.GetDelegation(ctx, delAddr, valAddr)
	if err != nil {
		return math.Int{}, stakingtypes.ErrNoDelegatorForAddress
	}
	if err := s.hookBeforeSharesModified(ctx, delAddr, valAddr); err != nil {
		return math.Int{}, err
	}
	if delegation.Shares.LT(shares) {
		return math.Int{}, stakingtypes.ErrNotEnoughDelegationShares
	}
	validator, err := s.GetValidator(ctx, valAddr)
	if err != nil {
		return math.Int{}, err
	}
	delegation.Shares = delegation.Shares.Sub(shares)
	if delegation.Shares.IsZero() {
		if err := s.Hooks.BeforeDelegationRemoved(ctx, delAddr, valAddr); err != nil {
			return math.Int{}, err
		}
		s.removeDelegation(delAddr, valAddr)
	} else {
		s.setDelegation(delAddr, valAddr, delegation)
		if err := s.Hooks.AfterDelegationModified(ctx, delAddr, valAddr); err != nil {
			return math.Int{}, err
		}
	}
	validator, amount := validator.RemoveDelShares(shares)
	s.setValidator(validator)
	return amount, nil
}

func (s *Staking) BeginRedelegation(context.Context, sdk.AccAddress, sdk.ValAddress, sdk.ValAddress, math.LegacyDec) (time.Time, error) {
	panic("env.Staking.BeginRedelegation not modelled")
}
func (s *Staking) RemoveRedelegation(context.Context, stakingtypes.Redelegation) error {
	panic("env.Staking.RemoveRedelegation not modelled")
}
func (s *Staking) RemoveValidatorTokensAndShares(_ context.Context, v stakingtypes.Validator, sh math.LegacyDec) (stakingtypes.Validator, math.Int, error) {
	v, t := v.RemoveDelShares(sh)
	s.setValidator(v)
	return v, t, nil
}
func (s *Staking) RemoveValidatorTokens(_ context.Context, v stakingtypes.Validator, t math.Int) (stakingtypes.Validator, error) {
	v = v.RemoveTokens(t)
	s.setValidator(v)
	return v, nil
}

func (s *Staking) Clone(b *Bank, d *Distr) *Staking {
	n := &Staking{Vals: map[string]*stakingtypes.Validator{}, Dels: map[string]*stakingtypes.Delegation{},
		ValOrder: append([]string(nil), s.ValOrder...), DelOrder: append([]string(nil), s.DelOrder...),
		Bank: b, Distr: d, Hooks: s.Hooks, Unbonding: s.Unbonding}
	for k, v := range s.Vals {
		vv := *v
		n.Vals[k] = &vv
	}
	for k, v := range s.Dels {
		dd := *v
		n.Dels[k] = &dd
	}
	return n
}

// ---------------------------------------------------------------- Env

// Env bundles the real keeper with its environment.
type Env struct {
	Ctx       sdk.Context
	Store     *Store
	Cdc       nd.Cdc
	Bank      *Bank
	Stk       *Staking
	Distr     *Distr
	Ak        Account
	K         keeper.Keeper
	Authority string
}

// Authority: the gov module account in bech32.
func AuthorityAddr() string { return sdk.AccAddress(modAddr(0xA6)).String() }

func New(blockTime time.Time, height int64) *Env {
	e := &Env{}
	e.Store = &Store{}
	e.Cdc = nd.NewCdc()
	e.Bank = NewBank()
	e.Distr = &Distr{Pending: map[string]sdk.Coins{}, Bank: e.Bank}
	e.Stk = &Staking{Vals: map[string]*stakingtypes.Validator{}, Dels: map[string]*stakingtypes.Delegation{}, Bank: e.Bank, Distr: e.Distr}
	e.Authority = AuthorityAddr()
	e.rewire()
	e.Ctx = sdk.Context{}.WithBlockTime(blockTime).WithBlockHeight(height).WithEventManager(sdk.NewEventManager())
	return e
}

func (e *Env) rewire() {
	e.K = keeper.NewKeeper(e.Cdc, StoreService{e.Store}, e.Ak, e.Bank, e.Stk, e.Distr, FeeCollector, e.Authority)
	e.Stk.Hooks = e.K.StakingHooks()
}

// Codec returns the codec as the interface the keeper sees (so that calls dispatch on nd.Cdc).
func (e *Env) Codec() codec.BinaryCodec { return e.Cdc }

// WithBlock moves the context to another block.
func (e *Env) WithBlock(t time.Time, h int64) {
	e.Ctx = e.Ctx.WithBlockTime(t).WithBlockHeight(h)
}

// RestoreFrom overwrites the state of e IN PLACE with a copy of the state of s, keeping e's keeper
// instance and its wiring: what an application does when it discards a cache context (failed or
// simulated transaction) - the stores roll back, the long-lived keeper object stays.
func (e *Env) RestoreFrom(s *Env) {
	*e.Store = *s.Store.Clone()
	*e.Bank = *s.Bank.Clone()
	*e.Distr = *s.Distr.Clone(e.Bank)
	hooks := e.Stk.Hooks
	*e.Stk = *s.Stk.Clone(e.Bank, e.Distr)
	e.Stk.Hooks = hooks
	e.Ctx = s.Ctx
}

// Branch returns an independent copy of the whole state (for probing on a discarded branch).
func (e *Env) Branch() *Env {
	n := &Env{Ctx: e.Ctx, Cdc: e.Cdc, Ak: e.Ak, Authority: e.Authority}
	n.Store = e.Store.Clone()
	n.Bank = e.Bank.Clone()
	n.Distr = e.Distr.Clone(n.Bank)
	n.Stk = e.Stk.Clone(n.Bank, n.Distr)
	n.rewire()
	return n
}
