package h

import (
	"bytes"

	sdk "github.com/cosmos/cosmos-sdk/types"

	"hv/env"
	"hv/nd"

	"github.com/terra-money/alliance/x/alliance"
)

// sameState: module store byte-identical, bank and staking models equal.
func sameState(id string, a, b *env.Env) {
	nd.Assert(id+".store", len(a.Store.Items) == len(b.Store.Items))
	if len(a.Store.Items) == len(b.Store.Items) {
		for i := range a.Store.Items {
			nd.Assert(id+".store", nd.And(bytes.Equal(a.Store.Items[i].K, b.Store.Items[i].K), bytes.Equal(a.Store.Items[i].V, b.Store.Items[i].V)))
		}
	}
	nd.Assert(id+".bank", len(a.Bank.Denoms) == len(b.Bank.Denoms))
	for _, acc := range [][]byte{Dels[0], Dels[1], a.Ak.GetModuleAddress("alliance"), a.Ak.GetModuleAddress("alliance_rewards"),
		a.Ak.GetModuleAddress("fee_collector"), a.Ak.GetModuleAddress("bonded_tokens_pool"), a.Ak.GetModuleAddress("not_bonded_tokens_pool")} {
		for _, d := range a.Bank.Denoms {
			nd.Assert(id+".bank", a.Bank.Balance(acc, d).Equal(b.Bank.Balance(acc, d)))
		}
	}
	for _, d := range a.Bank.Denoms {
		nd.Assert(id+".bank", a.Bank.SupplyOf(d).Equal(b.Bank.SupplyOf(d)))
	}
	nd.Assert(id+".staking", len(a.Stk.DelOrder) == len(b.Stk.DelOrder))
	for _, k := range a.Stk.ValOrder {
		va, vb := a.Stk.Vals[k], b.Stk.Vals[k]
		nd.Assert(id+".staking", vb != nil && va.Tokens.Equal(vb.Tokens) && va.DelegatorShares.Equal(vb.DelegatorShares))
	}
}

// selfcomp runs op twice from the same state on two sibling branches, every nondeterminism
// source the engine knows (map iteration order in repository code, wall clock) resolved
// independently, and demands identical results and identical state.
func selfcomp(id string, op Op, ps []Pos, o Opts, pending bool) {
	pk := 0
	if pending {
		pk = nd.Choice("pending", 3)
	}
	st := Build(ps, o)
	pendingUnbondings(st, pk)
	if op == OpEndBlock {
		_ = st.E.K.QueueAssetRebalanceEvent(st.E.Ctx)
	}
	a := st.E
	// natively the resolution of a nondeterminism source (Go randomises map iteration per
	// range statement) cannot be dictated by a witness: the replay compares many sibling runs
	siblings := 1
	if !nd.Symbolic() {
		siblings = 40
	}
	var others []*State
	for k := 0; k < siblings; k++ {
		c := *st
		c.E = a.Branch()
		others = append(others, &c)
	}
	ok1 := RunOp(st, op, id, false)
	nd.Reach(id)
	for _, o := range others {
		ok2 := RunOp(o, op, id, false)
		nd.Assert(id+".result", ok1 == ok2)
		sameState(id, a, o.E)
	}
}

func H_C19_selfcomp_delegate() {
	selfcomp("C19.selfcomp.delegate", OpDelegate, shape3("shape"), Opts{Rewards: true, BigPool: true, StrictRewards: true}, false)
}
func H_C19_selfcomp_undelegate() {
	selfcomp("C19.selfcomp.undelegate", OpUndelegate, shapeActor("shape"), Opts{Rewards: true, BigPool: true, StrictRewards: true}, false)
}
func H_C19_selfcomp_redelegate() {
	selfcomp("C19.selfcomp.redelegate", OpRedelegate, shapeActor("shape"), Opts{Rewards: true, BigPool: true, StrictRewards: true}, false)
}

// a second redelegation of the same block: the queue slot (completion time) already holds another
// delegator's entry, so the slot is rewritten with two entries - their order must not depend on a map
func H_C19_selfcomp_redelegate_slot() {
	id := "C19.selfcomp.redelegate_slot"
	st := Build([]Pos{{0, 0, 0}, {1, 0, 0}}, Opts{Rewards: true, BigPool: true, StrictRewards: true, NVals: 3})
	e := st.E
	U, _ := e.Stk.UnbondingTime(e.Ctx)
	InstallRedelegation(e, 1, 2, 1, 0, nd.IntRange("r0", "1", Pow30), st.T0.Add(U))
	siblings := 1
	if !nd.Symbolic() {
		siblings = 40
	}
	var others []*State
	for k := 0; k < siblings; k++ {
		c := *st
		c.E = e.Branch()
		others = append(others, &c)
	}
	ok1 := RunOp(st, OpRedelegate, id, false)
	nd.Reach(id)
	for _, o := range others {
		ok2 := RunOp(o, OpRedelegate, id, false)
		nd.Assert(id+".result", ok1 == ok2)
		sameState(id, e, o.E)
	}
}

func H_C19_selfcomp_claim() {
	selfcomp("C19.selfcomp.claim", OpClaim, shapeActor("shape"), Opts{Rewards: true, BigPool: true, StrictRewards: true}, false)
}

// first reward deposit in two denominations at once: the order of the new history entries must not depend on a map
func H_C19_selfcomp_claim2() {
	selfcomp("C19.selfcomp.claim2", OpClaim, []Pos{{0, 0, 0}, {1, 0, 0}}, Opts{Rewards: true, TwoRewards: true, BigPool: true, StrictRewards: true}, false)
}
func H_C19_selfcomp_slash() {
	selfcomp("C19.selfcomp.slash", OpSlash, shapeActor("shape"), Opts{}, true)
}
func H_C19_selfcomp_endblock() {
	selfcomp("C19.selfcomp.endblock", OpEndBlock, shapeActor("shape"), Opts{TakeRate: true}, true)
}

// H_C19_discarded_branch: the outcome of a transaction does not depend on what the process executed on
// a cache context that was discarded before (failed, simulated or out-of-gas transaction): the stores
// roll back, the long-lived keeper object stays - so the keeper must not carry state of its own.
// Run Delegate+Claim on the live keeper, roll the stores back, run the operation; compare with the
// same operation on a pristine copy of the state (own keeper).
func H_C19_discarded_branch() {
	id := "C19.discarded"
	op := []Op{OpDelegate, OpUndelegate, OpRedelegate}[nd.Choice("op", 3)]
	st := Build([]Pos{{0, 0, 0}, {1, 0, 0}}, Opts{Rewards: true, BigPool: true, StrictRewards: true})
	e := st.E
	snap := e.Branch()
	ref := *st
	ref.E = e.Branch()
	// the discarded transaction: a write followed by a read of the asset and the validator
	Caught(func() {
		_, _ = e.K.Delegate(e.Ctx, Dels[1], AV(e, Vals[0]), sdk.NewCoin(Denoms[0], nd.IntRange("amt0", "1", Pow30)))
		_, _ = e.K.ClaimDelegationRewards(e.Ctx, Dels[1], AV(e, Vals[0]), Denoms[0])
	})
	e.RestoreFrom(snap)
	ok1 := RunOp(st, op, id, false)
	nd.Reach(id)
	ok2 := RunOp(&ref, op, id, false)
	nd.Assert(id+".result", ok1 == ok2)
	sameState(id, e, ref.E)
}

// H_C19_selfcomp_invariant: the module's delegator-share invariant (the only repository code
// that ranges over maps) gives the same verdict and message under every iteration order.
func H_C19_selfcomp_invariant() {
	id := "C19.selfcomp.invariant"
	st := Build([]Pos{{0, 0, 0}, {1, 0, 0}, {1, 1, 0}, {0, 0, 1}}, Opts{NDenoms: 2})
	e := st.E
	inv := alliance.DelegatorSharesInvariant(e.K)
	r1, s1 := inv(e.Ctx)
	r2, s2 := inv(e.Ctx)
	nd.Reach(id)
	nd.Assert(id, r1 == r2 && s1 == s2)
	nd.Assert(id+".holds", !s1)
}
