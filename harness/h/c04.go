package h

import (
	"cosmossdk.io/math"
	sdk "github.com/cosmos/cosmos-sdk/types"

	"hv/env"
	"hv/nd"

	"github.com/terra-money/alliance/x/alliance/types"
)

// posValue: redeemable token value of a position as a decimal (no epsilon, no truncation).
func posValue(e *env.Env, p Pos) math.LegacyDec {
	d, found := e.K.GetDelegation(e.Ctx, Dels[p.D], Vals[p.V], Denoms[p.A])
	if !found {
		return math.LegacyZeroDec()
	}
	asset, _ := e.K.GetAssetByDenom(e.Ctx, Denoms[p.A])
	av := AV(e, Vals[p.V])
	return types.ConvertNewShareToDecToken(av.TotalTokensWithAsset(asset), av.TotalDelegationSharesWithDenom(Denoms[p.A]), d.Shares)
}

func within(x, lo, hi math.LegacyDec) bool {
	t := valTol(lo.Abs().Add(hi.Abs()))
	return nd.And(nd.LeqDec(lo, x, t), nd.LeqDec(x, hi, t))
}

// slack: tolerance of the value claims in the ideal (exact rational) interpretation: the
// truncation to whole base units, plus the 0.01-share epsilon of ValidateDelegatedAmount
// priced in tokens (a full withdrawal is granted when the request is within 0.01 shares).
func slack(e *env.Env, v int) math.LegacyDec {
	asset, _ := e.K.GetAssetByDenom(e.Ctx, Denoms[0])
	av := AV(e, Vals[v])
	tds := av.TotalDelegationSharesWithDenom(Denoms[0])
	if tds.IsZero() {
		return math.LegacyOneDec()
	}
	price := av.TotalTokensWithAsset(asset).Quo(tds)
	return math.LegacyOneDec().Add(types.Rounder.Mul(price))
}

// c04: one operation by delegator 0; every other position's value is unchanged, the actor's
// changes by the requested amount (ideal-Q: the repository's data flow computes the right
// quantities for all real-valued inputs; rounding is covered by the leaf lemmas).
func c04(id string, op Op, ps []Pos) {
	// quick tier: withdrawals are checked at validator-share price 1 (delegator-share prices symbolic)
	st := Build(ps, Opts{ValPriceOne: op != OpDelegate && !nd.Thorough()})
	e := st.E
	all := []Pos{{0, 0, 0}, {1, 0, 0}, {0, 1, 0}, {1, 1, 0}}
	var pre []math.LegacyDec
	for _, p := range all {
		pre = append(pre, posValue(e, p))
	}
	tol := slack(e, 0)
	amt := nd.IntRange("amt", "1", Pow30)
	a := math.LegacyNewDecFromInt(amt)
	if op == OpUndelegate || op == OpRedelegate {
		// region of a known finding: a request within 0.01 SHARES of the whole position is granted as a
		// full withdrawal (ValidateDelegatedAmount): all shares are removed but only the requested tokens
		// leave, and the difference - up to 0.01 * share price tokens - passes to the co-delegators. With a
		// share worth more than 100 tokens that exceeds the property's one-unit tolerance.
		del, _ := e.K.GetDelegation(e.Ctx, Dels[0], Vals[0], Denoms[0])
		asset, _ := e.K.GetAssetByDenom(e.Ctx, Denoms[0])
		req := types.GetDelegationSharesFromTokens(AV(e, Vals[0]), asset, amt)
		if del.Shares.Sub(req).Abs().LT(types.Rounder) && tol.GT(math.LegacyNewDec(2)) {
			nd.Tag("epsilon-full-withdrawal-high-price")
		}
	}
	if !RunOp(st, op, id, false) {
		return
	}
	nd.Reach(id)
	zero := math.LegacyZeroDec()
	for i, p := range all {
		d := posValue(e, p).Sub(pre[i])
		want := zero
		switch {
		case op == OpDelegate && i == 0:
			want = a
		case (op == OpUndelegate || op == OpRedelegate) && i == 0:
			want = a.Neg()
		case op == OpRedelegate && i == 2:
			want = a
		}
		if i == 0 && (op == OpUndelegate || op == OpRedelegate) {
			// the actor may lose up to the epsilon slack on a full withdrawal, never gains
			nd.Assert(id+".actor", within(d, want.Sub(tol), want))
		} else if want.IsZero() {
			nd.Assert(id+".others", nd.NearDec(d, zero, valTol(pre[i])))
		} else {
			nd.Assert(id+".actor", nd.NearDec(d, want, valTol(want)))
		}
	}
	// the positions of the asset never add up to more than its staked total
	asset, _ := e.K.GetAssetByDenom(e.Ctx, Denoms[0])
	sum := zero
	for _, p := range all {
		sum = sum.Add(posValue(e, p))
	}
	nd.Assert(id+".total", nd.LeqDec(sum, math.LegacyNewDecFromInt(asset.TotalTokens), valTol(sum)))
}

func H_C04_alg_delegate_Q()   { c04("C04.alg.delegate", OpDelegate, shape3("shape")) }
func H_C04_alg_undelegate_Q() { c04("C04.alg.undelegate", OpUndelegate, shapeActor("shape")) }
func H_C04_alg_redelegate_Q() { c04("C04.alg.redelegate", OpRedelegate, shapeRedel("shape")) }

// shapeRedel: the actor on the source validator; optionally a co-delegator there, the actor's own
// position on the destination, and ANOTHER delegator's position on the destination (whose value a
// mispriced share transfer would change).
func shapeRedel(name string) []Pos {
	switch nd.Choice(name, 6) {
	case 0:
		return []Pos{{0, 0, 0}}
	case 1:
		return []Pos{{0, 0, 0}, {1, 0, 0}}
	case 2:
		return []Pos{{0, 0, 0}, {0, 1, 0}}
	case 3:
		return []Pos{{0, 0, 0}, {1, 0, 0}, {0, 1, 0}}
	case 4:
		return []Pos{{0, 0, 0}, {1, 1, 0}}
	}
	return []Pos{{0, 0, 0}, {1, 0, 0}, {0, 1, 0}, {1, 1, 0}}
}

// H_C04_cap: structural (exact arithmetic): a successful Undelegate/Redelegate(a) implies that a is at
// most the token value reported for the shares that were removed.
func H_C04_cap() {
	id := "C04.cap"
	nd.UFWindow(24) // value(removed shares) <= value(all shares) is a monotonicity fact
	op := nd.Choice("op", 2)
	st := Build(shapeActor("shape"), Opts{})
	e := st.E
	del, _ := e.K.GetDelegation(e.Ctx, Dels[0], Vals[0], Denoms[0])
	asset, _ := e.K.GetAssetByDenom(e.Ctx, Denoms[0])
	av := AV(e, Vals[0])
	full := types.GetDelegationTokensWithShares(del.Shares, av, asset)
	amt := nd.IntRange("amt", "1", Pow30)
	var err error
	if Caught(func() {
		if op == 0 {
			_, err = e.K.Undelegate(e.Ctx, Dels[0], av, sdk.NewCoin(Denoms[0], amt))
		} else {
			_, err = e.K.Redelegate(e.Ctx, Dels[0], av, AV(e, Vals[1]), sdk.NewCoin(Denoms[0], amt))
		}
	}) || err != nil {
		return
	}
	nd.Reach(id)
	// removed shares <= held shares, hence a <= value(removed shares) <= value(all shares)
	nd.Assert(id, amt.LTE(full.Amount))
	post, found := e.K.GetDelegation(e.Ctx, Dels[0], Vals[0], Denoms[0])
	if found {
		nd.Assert(id+".shares", nd.And(post.Shares.GT(math.LegacyZeroDec()), post.Shares.LT(del.Shares)))
	}
}
