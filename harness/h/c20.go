package h

import (
	"encoding/json"
	"time"

	"cosmossdk.io/math"
	sdk "github.com/cosmos/cosmos-sdk/types"

	"hv/nd"

	"github.com/terra-money/alliance/x/alliance/bindings"
	bindingtypes "github.com/terra-money/alliance/x/alliance/bindings/types"
	"github.com/terra-money/alliance/x/alliance/keeper"
	"github.com/terra-money/alliance/x/alliance/types"
)

type uentry struct {
	d, v, a int
	c       time.Time
	amt     math.Int
}

// unbondingUniverse installs pending unbondings in several packings and returns the primary
// records as the reference enumeration.
func unbondingUniverse(st *State, k int) []uentry {
	e := st.E
	c1 := nd.TimeRange("c1", TLo, THi)
	q1 := nd.IntRange("q1", "1", Pow30)
	var all []uentry
	install := func(d int, c time.Time, es []Entry) {
		InstallUnbonding(e, d, c, es)
		for _, x := range es {
			all = append(all, uentry{d, x.V, x.A, c, x.Amt})
		}
	}
	switch k {
	case 0:
		install(0, c1, []Entry{{0, 0, q1}})
	case 1: // shared bucket: two validators
		install(0, c1, []Entry{{0, 0, q1}, {1, 0, nd.IntRange("q2", "1", Pow30)}})
		nd.Tag("shared-bucket")
	case 2: // shared bucket: two denoms of one validator
		install(0, c1, []Entry{{0, 0, q1}, {0, 1, nd.IntRange("q2", "1", Pow30)}})
		nd.Tag("shared-bucket")
	case 3: // repeated undelegation, same validator and denom, one block
		install(0, c1, []Entry{{0, 0, q1}, {0, 0, nd.IntRange("q2", "1", Pow30)}})
		nd.Tag("repeated-entry")
	case 4: // two buckets, two times, plus another delegator
		c2 := nd.TimeRange("c2", TLo, THi)
		nd.Assume(!c2.Equal(c1))
		install(0, c1, []Entry{{0, 0, q1}})
		install(0, c2, []Entry{{0, 0, nd.IntRange("q2", "1", Pow30)}})
		install(1, c1, []Entry{{0, 0, nd.IntRange("q3", "1", Pow30)}})
	case 5: // nothing for the queried validator
		install(0, c1, []Entry{{1, 0, q1}})
	case 6: // the other denom of the same validator in a bucket of its own (another completion time)
		c2 := nd.TimeRange("c2", TLo, THi)
		nd.Assume(!c2.Equal(c1))
		install(0, c1, []Entry{{0, 0, q1}})
		install(0, c2, []Entry{{0, 1, nd.IntRange("q2", "1", Pow30)}})
	}
	return all
}

func checkUnbondings(id string, got []types.UnbondingDelegation, ref []uentry, keep func(uentry) bool) {
	n := 0
	for _, r := range ref {
		if keep(r) {
			n++
		}
	}
	nd.Assert(id+".count", len(got) == n)
	// per (validator, denom): number of entries and total amount agree with the reference
	for v := 0; v < 2; v++ {
		for a := 0; a < 2; a++ {
			cnt, sum := 0, math.ZeroInt()
			for _, r := range ref {
				if keep(r) && r.v == v && r.a == a {
					cnt++
					sum = sum.Add(r.amt)
				}
			}
			gc, gs := 0, math.ZeroInt()
			for _, g := range got {
				if g.ValidatorAddress == Vals[v].String() && g.Denom == Denoms[a] {
					gc++
					gs = gs.Add(g.Amount)
				}
			}
			nd.Assert(id+".group", gc == cnt)
			nd.Assert(id+".amount", gs.Equal(sum))
		}
	}
	// completion times are those of the buckets
	for _, g := range got {
		ok := false
		for _, r := range ref {
			if keep(r) && g.ValidatorAddress == Vals[r.v].String() && g.Denom == Denoms[r.a] {
				ok = nd.Or(ok, g.CompletionTime.Equal(r.c))
			}
		}
		nd.Assert(id+".time", ok)
	}
}

// H_C20_unbondings: the three unbonding queries return exactly the primary records matching
// their filter - every pending entry once, none of another validator or denom.
func H_C20_unbondings() {
	k := nd.Choice("packing", 7)
	which := nd.Choice("query", 3)
	DenomUniverse(nd.Choice("denoms", 3))
	st := Build([]Pos{{0, 0, 0}}, Opts{NDenoms: 2})
	e := st.E
	ref := unbondingUniverse(st, k)
	var got []types.UnbondingDelegation
	var err error
	switch which {
	case 0:
		id := "C20.unbond.byval"
		nd.Reach(id)
		if !NoPanic(id, func() { got, err = e.K.GetUnbondings(e.Ctx, Denoms[0], Dels[0], Vals[0]) }) {
			return
		}
		nd.Assert(id+".ok", err == nil)
		checkUnbondings(id, got, ref, func(r uentry) bool { return r.d == 0 && r.v == 0 && r.a == 0 })
	case 1:
		id := "C20.unbond.bydenom"
		nd.Reach(id)
		if !NoPanic(id, func() { got, err = e.K.GetUnbondingsByDenomAndDelegator(e.Ctx, Denoms[0], Dels[0]) }) {
			return
		}
		nd.Assert(id+".ok", err == nil)
		checkUnbondings(id, got, ref, func(r uentry) bool { return r.d == 0 && r.a == 0 })
	case 2:
		id := "C20.unbond.bydel"
		nd.Reach(id)
		if !NoPanic(id, func() { got, err = e.K.GetUnbondingsByDelegator(e.Ctx, Dels[0]) }) {
			return
		}
		nd.Assert(id+".ok", err == nil)
		checkUnbondings(id, got, ref, func(r uentry) bool { return r.d == 0 })
	}
}

// H_C20_redelegations: the redelegation queries return each pending record of the delegator
// (and denom) once, with its balance and completion time.
func H_C20_redelegations() {
	id := "C20.redel"
	k := nd.Choice("packing", 3)
	which := nd.Choice("query", 2)
	DenomUniverse(nd.Choice("denoms", 3))
	st := Build([]Pos{{0, 1, 0}}, Opts{NVals: 3, NDenoms: 2})
	e := st.E
	c1 := nd.TimeRange("c1", TLo, THi)
	r1 := nd.IntRange("r1", "1", Pow30)
	type rent struct {
		d, dst, a int
		c         time.Time
		amt       math.Int
	}
	ref := []rent{{0, 1, 0, c1, r1}}
	InstallRedelegation(e, 0, 0, 1, 0, r1, c1)
	switch k {
	case 1: // second entry at another time into another validator, other delegator too
		c2 := nd.TimeRange("c2", TLo, THi)
		nd.Assume(!c2.Equal(c1))
		r2 := nd.IntRange("r2", "1", Pow30)
		InstallRedelegation(e, 0, 0, 2, 0, r2, c2)
		ref = append(ref, rent{0, 2, 0, c2, r2})
		InstallRedelegation(e, 1, 0, 1, 0, nd.IntRange("r3", "1", Pow30), c1)
	case 2: // another denom
		r2 := nd.IntRange("r2", "1", Pow30)
		InstallRedelegation(e, 0, 0, 1, 1, r2, c1)
		ref = append(ref, rent{0, 1, 1, c1, r2})
	}
	qs := keeper.NewQueryServerImpl(e.K)
	var got []types.RedelegationEntry
	var err error
	nd.Reach(id)
	ok := NoPanic(id, func() {
		if which == 0 {
			var res *types.QueryAllianceRedelegationsResponse
			res, err = qs.AllianceRedelegations(e.Ctx, &types.QueryAllianceRedelegationsRequest{Denom: Denoms[0], DelegatorAddr: Dels[0].String()})
			if res != nil {
				got = res.Redelegations
			}
		} else {
			var res *types.QueryAllianceRedelegationsByDelegatorResponse
			res, err = qs.AllianceRedelegationsByDelegator(e.Ctx, &types.QueryAllianceRedelegationsByDelegatorRequest{DelegatorAddr: Dels[0].String()})
			if res != nil {
				got = res.Redelegations
			}
		}
	})
	if !ok {
		return
	}
	nd.Assert(id+".ok", err == nil)
	n := 0
	for _, r := range ref {
		if which == 1 || r.a == 0 {
			n++
			hits := 0
			for _, g := range got {
				if g.DstValidatorAddress == Vals[r.dst].String() && g.Balance.Denom == Denoms[r.a] && g.DelegatorAddress == Dels[0].String() {
					hits++
					nd.Assert(id+".fields", nd.And(g.Balance.Amount.Equal(r.amt), g.CompletionTime.Equal(r.c)))
				}
			}
			nd.Assert(id+".once", hits == 1)
		}
	}
	nd.Assert(id+".count", len(got) == n)
}

// H_C20_balance_Q (ideal-Q: the claim is about values, decided over the reals): the balance reported by the delegation query is what can be undelegated now:
// Undelegate(balance) succeeds and Undelegate(balance+1) fails.
func H_C20_balance_Q() {
	id := "C20.balance"
	more := nd.Choice("plusone", 2)
	st := Build(shapeActor("shape"), Opts{TinyTDS: true})
	e := st.E
	qs := keeper.NewQueryServerImpl(e.K)
	res, err := qs.AllianceDelegation(e.Ctx, &types.QueryAllianceDelegationRequest{DelegatorAddr: Dels[0].String(), ValidatorAddr: Vals[0].String(), Denom: Denoms[0]})
	if err != nil {
		nd.Assert(id+".query", false)
		return
	}
	balance := res.Delegation.Balance.Amount
	nd.Assume(balance.IsPositive())
	asset, _ := e.K.GetAssetByDenom(e.Ctx, Denoms[0])
	del, _ := e.K.GetDelegation(e.Ctx, Dels[0], Vals[0], Denoms[0])
	av0 := AV(e, Vals[0])
	exact := types.ConvertNewShareToDecToken(av0.TotalTokensWithAsset(asset), av0.TotalDelegationSharesWithDenom(Denoms[0]), del.Shares)
	if math.LegacyNewDecFromInt(balance).GT(exact) {
		nd.Tag("balance-rounded-up")
	}
	if av0.TotalDelegationSharesWithDenom(Denoms[0]).TruncateInt().IsZero() {
		nd.Tag("tds-below-one") // GetDelegationSharesFromTokens prices shares 1:1 when the validator's delegator shares truncate to zero
	}
	tagLiveness(e, 0)
	hintUnitPrices(st)
	amt := balance
	if more == 1 {
		amt = balance.AddRaw(1)
	}
	var uerr error
	nd.Reach(id)
	panicked := Caught(func() { _, uerr = e.K.Undelegate(e.Ctx, Dels[0], av0, sdk.NewCoin(Denoms[0], amt)) })
	if more == 0 {
		ErrNote(uerr)
		nd.Assert(id+".can", nd.And(!panicked, uerr == nil))
	} else {
		nd.Assert(id+".cannot", panicked || uerr != nil)
	}
}

// H_C20_bind: the contract-facing bindings report the same values as the gRPC queries
// (times as Unix nanoseconds, balance as the delegation query's balance).
func H_C20_bind() {
	id := "C20.bind"
	st := Build([]Pos{{0, 0, 0}}, Opts{Started: 2})
	e := st.E
	kp := e.K
	qp := bindings.NewAllianceQueryPlugin(&kp)
	asset, _ := e.K.GetAssetByDenom(e.Ctx, Denoms[0])
	var bz []byte
	var err error
	nd.Reach(id)
	if !NoPanic(id, func() { bz, err = qp.GetAlliance(e.Ctx, Denoms[0]) }) {
		return
	}
	nd.Assert(id+".ok", err == nil)
	var r bindingtypes.AllianceResponse
	if json.Unmarshal(bz, &r) != nil {
		nd.Assert(id+".ok", false)
		return
	}
	nd.Assert(id+".start", r.RewardStartTime == uint64(asset.RewardStartTime.UnixNano()))
	nd.Assert(id+".lastchange", r.LastRewardChangeTime == uint64(asset.LastRewardChangeTime.UnixNano()))
	nd.Assert(id+".fields", r.Denom == asset.Denom && r.IsInitialized == asset.IsInitialized)
}

// H_C20_bind_delegation: the contract-facing delegation binding reports the balance of the gRPC
// delegation query (its own harness: the time-field obligations of H_C20_bind are a known finding and
// end their paths).
func H_C20_bind_delegation() {
	id := "C20.bind.delegation"
	st := Build(shapeActor("shape"), Opts{})
	e := st.E
	kp := e.K
	qp := bindings.NewAllianceQueryPlugin(&kp)
	var bz []byte
	var err error
	nd.Reach(id)
	if !NoPanic(id, func() { bz, err = qp.GetDelegation(e.Ctx, Denoms[0], Dels[0].String(), Vals[0].String()) }) {
		return
	}
	nd.Assert(id+".ok", err == nil)
	var dr bindingtypes.DelegationResponse
	if json.Unmarshal(bz, &dr) != nil {
		nd.Assert(id+".ok", false)
		return
	}
	qs := keeper.NewQueryServerImpl(e.K)
	res, qerr := qs.AllianceDelegation(e.Ctx, &types.QueryAllianceDelegationRequest{DelegatorAddr: Dels[0].String(), ValidatorAddr: Vals[0].String(), Denom: Denoms[0]})
	nd.Assert(id+".ok", qerr == nil)
	if qerr == nil {
		amt, ok := math.NewIntFromString(dr.Amount)
		nd.Assert(id+".balance", ok && amt.Equal(res.Delegation.Balance.Amount))
	}
}

// H_C20_delegations: the delegation list queries (by delegator, by delegator+validator, all)
// return exactly the delegator's primary records, each once, and every row's balance equals
// the single-record delegation query's balance for that position.
func H_C20_delegations() {
	id := "C20.delegations"
	which := nd.Choice("query", 3)
	ps := []Pos{{0, 0, 0}, {0, 1, 0}, {1, 1, 0}, {0, 0, 1}}
	st := Build(ps, Opts{NDenoms: 2})
	e := st.E
	qs := keeper.NewQueryServerImpl(e.K)
	var got []types.DelegationResponse
	var err error
	nd.Reach(id)
	ok := NoPanic(id, func() {
		switch which {
		case 0:
			var r *types.QueryAlliancesDelegationsResponse
			r, err = qs.AlliancesDelegation(e.Ctx, &types.QueryAlliancesDelegationsRequest{DelegatorAddr: Dels[0].String()})
			if r != nil {
				got = r.Delegations
			}
		case 1:
			var r *types.QueryAlliancesDelegationsResponse
			r, err = qs.AlliancesDelegationByValidator(e.Ctx, &types.QueryAlliancesDelegationByValidatorRequest{DelegatorAddr: Dels[0].String(), ValidatorAddr: Vals[0].String()})
			if r != nil {
				got = r.Delegations
			}
		case 2:
			var r *types.QueryAlliancesDelegationsResponse
			r, err = qs.AllAlliancesDelegations(e.Ctx, &types.QueryAllAlliancesDelegationsRequest{})
			if r != nil {
				got = r.Delegations
			}
		}
	})
	if !ok {
		return
	}
	nd.Assert(id+".ok", err == nil)
	n := 0
	for _, p := range ps {
		if (which == 0 && p.D != 0) || (which == 1 && (p.D != 0 || p.V != 0)) {
			continue
		}
		n++
		single, serr := qs.AllianceDelegation(e.Ctx, &types.QueryAllianceDelegationRequest{DelegatorAddr: Dels[p.D].String(), ValidatorAddr: Vals[p.V].String(), Denom: Denoms[p.A]})
		hits := 0
		for _, g := range got {
			if g.Delegation.DelegatorAddress == Dels[p.D].String() && g.Delegation.ValidatorAddress == Vals[p.V].String() && g.Delegation.Denom == Denoms[p.A] {
				hits++
				if serr == nil {
					nd.Assert(id+".balance", nd.And(g.Balance.Denom == Denoms[p.A], g.Balance.Amount.Equal(single.Delegation.Balance.Amount),
						g.Delegation.Shares.Equal(single.Delegation.Delegation.Shares)))
				}
			}
		}
		nd.Assert(id+".once", hits == 1)
	}
	nd.Assert(id+".count", len(got) == n)
}
