package h

import (
	"time"

	"cosmossdk.io/math"
	sdk "github.com/cosmos/cosmos-sdk/types"

	"hv/env"
	"hv/nd"

	"github.com/terra-money/alliance/x/alliance"
	"github.com/terra-money/alliance/x/alliance/types"
)

// Entry is one pending unbonding entry of a (time, delegator) bucket.
type Entry struct {
	V, A int
	Amt  math.Int
}

// InstallUnbonding writes one queue bucket (completion time, delegator) with its entries
// and the per-validator index keys, exactly as queueUndelegation lays them out (R4), and
// funds custody with the queued amounts.
func InstallUnbonding(e *env.Env, d int, completion time.Time, entries []Entry) {
	q := types.QueuedUndelegation{}
	for _, en := range entries {
		q.Entries = append(q.Entries, &types.Undelegation{
			DelegatorAddress: Dels[d].String(),
			ValidatorAddress: Vals[en.V].String(),
			Balance:          sdk.Coin{Denom: Denoms[en.A], Amount: en.Amt},
		})
		e.Bank.Fund(e.Ak.GetModuleAddress(types.ModuleName), Denoms[en.A], en.Amt)
	}
	if err := e.Store.Set(types.GetUndelegationQueueKey(completion, Dels[d]), e.Codec().MustMarshal(&q)); err != nil {
		panic(err)
	}
	for _, en := range entries {
		if err := e.Store.Set(types.GetUnbondingIndexKey(Vals[en.V], completion, Denoms[en.A], Dels[d]), []byte{}); err != nil {
			panic(err)
		}
	}
}

// InstallRedelegation writes a pending redelegation (record, by-source index, queue entry)
// as addRedelegation lays them out.
func InstallRedelegation(e *env.Env, d, src, dst, a int, amt math.Int, completion time.Time) {
	r := types.Redelegation{
		DelegatorAddress:    Dels[d].String(),
		SrcValidatorAddress: Vals[src].String(),
		DstValidatorAddress: Vals[dst].String(),
		Balance:             sdk.Coin{Denom: Denoms[a], Amount: amt},
	}
	rk := types.GetRedelegationKey(Dels[d], Denoms[a], Vals[dst], completion)
	rec := r
	if b, _ := e.Store.Get(rk); b != nil {
		// addRedelegation merges into an existing record (same delegator, denom, destination, time)
		e.Codec().MustUnmarshal(b, &rec)
		rec.Balance = rec.Balance.Add(r.Balance)
	}
	if err := e.Store.Set(rk, e.Codec().MustMarshal(&rec)); err != nil {
		panic(err)
	}
	if err := e.Store.Set(types.GetRedelegationIndexKey(Vals[src], completion, Denoms[a], Vals[dst], Dels[d]), []byte{}); err != nil {
		panic(err)
	}
	qk := types.GetRedelegationQueueKey(completion)
	var q types.QueuedRedelegation
	if b, _ := e.Store.Get(qk); b != nil {
		e.Codec().MustUnmarshal(b, &q)
	}
	rr := r
	q.Entries = append(q.Entries, &rr)
	if err := e.Store.Set(qk, e.Codec().MustMarshal(&q)); err != nil {
		panic(err)
	}
}

// ---- the operations catalogue (all through the real code) ----

type Op int

const (
	OpDelegate Op = iota
	OpUndelegate
	OpRedelegate
	OpClaim
	OpSlash
	OpEndBlock
)

// RunOp executes op with symbolic arguments by delegator 0 on validator 0 (destination
// validator 1), denom 0. It returns true when the operation succeeded. A panic is an
// obligation failure (id.nopanic) when strict, otherwise just an unsuccessful operation.
func RunOp(st *State, op Op, id string, strict bool) bool {
	e := st.E
	var err error
	run := func(f func()) bool {
		if strict {
			return NoPanic(id, f)
		}
		return !Caught(f)
	}
	ok := run(func() {
		switch op {
		case OpDelegate:
			amt := nd.IntRange("amt", "1", Pow30)
			_, err = e.K.Delegate(e.Ctx, Dels[0], AV(e, Vals[0]), sdk.NewCoin(Denoms[0], amt))
		case OpUndelegate:
			amt := nd.IntRange("amt", "1", Pow30)
			_, err = e.K.Undelegate(e.Ctx, Dels[0], AV(e, Vals[0]), sdk.NewCoin(Denoms[0], amt))
		case OpRedelegate:
			amt := nd.IntRange("amt", "1", Pow30)
			_, err = e.K.Redelegate(e.Ctx, Dels[0], AV(e, Vals[0]), AV(e, Vals[1]), sdk.NewCoin(Denoms[0], amt))
		case OpClaim:
			_, err = e.K.ClaimDelegationRewards(e.Ctx, Dels[0], AV(e, Vals[0]), Denoms[0])
		case OpSlash:
			f := nd.DecRange("fraction", "0.000000000000000001", "1")
			err = e.K.StakingHooks().BeforeValidatorSlashed(e.Ctx, Vals[0], f)
		case OpEndBlock:
			t1 := nd.TimeRange("t1", TLo, THi)
			nd.Assume(!t1.Before(st.T0))
			// at most three whole take-rate intervals elapse (unrolling bound of the compounding loop)
			nd.Assume(t1.Sub(st.Params.LastTakeRateClaimTime) <= 3*st.Params.TakeRateClaimInterval)
			e.WithBlock(t1, 101)
			err = alliance.EndBlocker(e.Ctx, e.K)
		}
	})
	return ok && err == nil
}

func endBlock(e *env.Env) error { return alliance.EndBlocker(e.Ctx, e.K) }
