package h

import (
	"time"

	"cosmossdk.io/math"
	sdk "github.com/cosmos/cosmos-sdk/types"
	stakingtypes "github.com/cosmos/cosmos-sdk/x/staking/types"

	"hv/env"
	"hv/nd"

	"github.com/terra-money/alliance/x/alliance/types"
)

func hasRedelRecord(e *env.Env, d, a, dst int, c time.Time) bool {
	ok, _ := e.Store.Has(types.GetRedelegationKey(Dels[d], Denoms[a], Vals[dst], c))
	return ok
}
func hasRedelIndex(e *env.Env, src int, c time.Time, a, dst, d int) bool {
	ok, _ := e.Store.Has(types.GetRedelegationIndexKey(Vals[src], c, Denoms[a], Vals[dst], Dels[d]))
	return ok
}
func redelQueue(e *env.Env, c time.Time) (types.QueuedRedelegation, bool) {
	var q types.QueuedRedelegation
	b, _ := e.Store.Get(types.GetRedelegationQueueKey(c))
	if b == nil {
		return q, false
	}
	e.Codec().MustUnmarshal(b, &q)
	return q, true
}

// H_C15_struct: a successful Redelegate(v0 -> v1, a) pays nothing out, leaves the staked total,
// custody and balances unchanged, moves the same validator-share amount from source to
// destination, and records a pending entry (record, by-source index, queue entry) at t+U.
func H_C15_struct() {
	id := "C15.struct"
	k := nd.Choice("shape", 4)
	ps := []Pos{{0, 0, 0}}
	if k&1 != 0 {
		ps = append(ps, Pos{1, 0, 0})
	}
	if k&2 != 0 {
		ps = append(ps, Pos{0, 1, 0}) // destination position already exists
	}
	fanin := nd.Choice("fanin", 2) == 1
	st := Build(ps, Opts{NVals: 3})
	e := st.E
	U, _ := e.Stk.UnbondingTime(e.Ctx)
	c := st.T0.Add(U)
	var r0 math.Int
	if fanin {
		// the same delegator already redelegated this asset from ANOTHER source (v2) into the same
		// destination in this block: same completion time, same queue slot
		r0 = nd.IntRange("r0", "1", Pow30)
		InstallRedelegation(e, 0, 2, 1, 0, r0, c)
	}
	asset, _ := e.K.GetAssetByDenom(e.Ctx, Denoms[0])
	preCust := moduleBal(e, Denoms[0])
	preBal := bal(e, 0, 0)
	preVS0, preVS1 := valShares(e, 0, Denoms[0]), valShares(e, 1, Denoms[0])
	amt := nd.IntRange("amt", "1", Pow30)
	var err error
	var ret *time.Time
	if Caught(func() {
		ret, err = e.K.Redelegate(e.Ctx, Dels[0], AV(e, Vals[0]), AV(e, Vals[1]), sdk.NewCoin(Denoms[0], amt))
	}) || err != nil {
		return
	}
	moved := types.GetValidatorShares(asset, amt)
	if moved.GT(preVS0) {
		nd.Tag("valshare-clamp") // C03's finding: the source record is clamped
	}
	nd.Reach(id)
	post, _ := e.K.GetAssetByDenom(e.Ctx, Denoms[0])
	nd.Assert(id+".time", ret.Equal(c))
	nd.Assert(id+".frame", nd.And(post.TotalTokens.Equal(asset.TotalTokens), post.TotalValidatorShares.Equal(asset.TotalValidatorShares),
		moduleBal(e, Denoms[0]).Equal(preCust), bal(e, 0, 0).Equal(preBal)))
	nd.Assert(id+".dst", valShares(e, 1, Denoms[0]).Equal(preVS1.Add(moved)))
	// the source loses the moved shares; a remainder worth zero tokens is dust and is cleared
	rest := preVS0.Sub(moved)
	dust := types.ConvertNewShareToDecToken(math.LegacyNewDecFromInt(asset.TotalTokens), asset.TotalValidatorShares, rest).IsZero()
	src := valShares(e, 0, Denoms[0])
	nd.Assert(id+".src", nd.Or(src.Equal(rest), nd.And(dust, src.IsZero())))
	nd.Assert(id+".entry", nd.And(hasRedelRecord(e, 0, 0, 1, c), hasRedelIndex(e, 0, c, 0, 1, 0)))
	q, found := redelQueue(e, c)
	if !fanin {
		nd.Assert(id+".queue", found && len(q.Entries) == 1 && q.Entries[0].Balance.Amount.Equal(amt) &&
			q.Entries[0].SrcValidatorAddress == Vals[0].String() && q.Entries[0].DstValidatorAddress == Vals[1].String())
		return
	}
	// one queue entry per source: completion deletes the by-source index of each entry's source
	nd.Assert(id+".queue", found && len(q.Entries) == 2 &&
		q.Entries[0].SrcValidatorAddress == Vals[2].String() && q.Entries[0].Balance.Amount.Equal(r0) &&
		q.Entries[1].SrcValidatorAddress == Vals[0].String() && q.Entries[1].Balance.Amount.Equal(amt) &&
		q.Entries[1].DstValidatorAddress == Vals[1].String())
	nd.Assert(id+".entry", hasRedelIndex(e, 2, c, 0, 1, 0))
}

// H_C15_hop: while an entry into validator 1 is pending the same delegator cannot redelegate
// that asset out of validator 1; without such an entry the transitive check does not block.
func H_C15_hop() {
	id := "C15.hop"
	k := nd.Choice("pending", 4)
	st := Build([]Pos{{0, 1, 0}, {1, 1, 0}}, Opts{NVals: 3})
	e := st.E
	c1 := nd.TimeRange("c1", TLo, THi)
	r1 := nd.IntRange("r1", "1", Pow30)
	blocked := false
	switch k {
	case 1: // pending entry into v1 by the same delegator and denom
		InstallRedelegation(e, 0, 0, 1, 0, r1, c1)
		blocked = true
	case 2: // entry into v1 by another delegator
		InstallRedelegation(e, 1, 0, 1, 0, r1, c1)
	case 3: // entry of the same delegator into another validator
		InstallRedelegation(e, 0, 0, 2, 0, r1, c1)
	}
	amt := nd.IntRange("amt", "1", Pow30)
	var err error
	nd.Reach(id)
	if Caught(func() {
		_, err = e.K.Redelegate(e.Ctx, Dels[0], AV(e, Vals[1]), AV(e, Vals[2]), sdk.NewCoin(Denoms[0], amt))
	}) {
		return
	}
	if blocked {
		nd.Assert(id+".blocked", err != nil)
	} else {
		nd.Assert(id+".free", err != stakingtypes.ErrTransitiveRedelegation)
	}
}

// H_C15_complete: at end-of-block time b a pending entry with completion c disappears from the
// record store, the by-source index and the queue iff c < b; otherwise all three are untouched.
func H_C15_complete() {
	id := "C15.complete"
	k := nd.Choice("packing", 4)
	st := Build([]Pos{{0, 1, 0}}, Opts{NVals: 3})
	e := st.E
	type ent struct {
		d, src, dst int
		c           time.Time
	}
	c1 := nd.TimeRange("c1", TLo, THi)
	r1 := nd.IntRange("r1", "1", Pow30)
	es := []ent{{0, 0, 1, c1}}
	InstallRedelegation(e, 0, 0, 1, 0, r1, c1)
	switch k {
	case 1: // fan-in from two sources completing at the same instant
		InstallRedelegation(e, 0, 2, 1, 0, nd.IntRange("r2", "1", Pow30), c1)
		es = append(es, ent{0, 2, 1, c1})
	case 2: // a second entry at another time
		c2 := nd.TimeRange("c2", TLo, THi)
		nd.Assume(!c2.Equal(c1))
		InstallRedelegation(e, 0, 0, 2, 0, nd.IntRange("r2", "1", Pow30), c2)
		es = append(es, ent{0, 0, 2, c2})
	case 3: // another delegator in the same queue slot
		InstallRedelegation(e, 1, 0, 1, 0, nd.IntRange("r2", "1", Pow30), c1)
		es = append(es, ent{1, 0, 1, c1})
	}
	b := nd.TimeRange("b", TLo, THi)
	nd.Assume(!b.Before(st.T0))
	e.WithBlock(b, 101)
	var err error
	nd.Reach(id)
	if !NoPanic(id, func() { err = endBlock(e) }) {
		return
	}
	nd.Assert(id+".ok", err == nil)
	for _, x := range es {
		mature := x.c.Before(b)
		nd.Assert(id+".record", boolEq(hasRedelRecord(e, x.d, 0, x.dst, x.c), nd.Not(mature)))
		nd.Assert(id+".index", boolEq(hasRedelIndex(e, x.src, x.c, 0, x.dst, x.d), nd.Not(mature)))
		_, found := redelQueue(e, x.c)
		nd.Assert(id+".queue", boolEq(found, nd.Not(mature)))
		// the hop restriction is lifted exactly when the entry is gone
		nd.Assert(id+".lift", boolEq(e.K.HasRedelegation(e.Ctx, Dels[x.d], Vals[x.dst], Denoms[0]), nd.Not(mature)))
	}
}

var _ = math.ZeroInt
