package h

import (
	"time"

	"cosmossdk.io/math"

	"hv/nd"
)

// shape3 enumerates which of the records (d0,v0), (d1,v0), (d1,v1) of denom 0 exist.
func shape3(name string) []Pos {
	k := nd.Choice(name, 8)
	var ps []Pos
	if k&1 != 0 {
		ps = append(ps, Pos{0, 0, 0})
	}
	if k&2 != 0 {
		ps = append(ps, Pos{1, 0, 0})
	}
	if k&4 != 0 {
		ps = append(ps, Pos{1, 1, 0})
	}
	return ps
}

// shapeActor: (d0,v0) always exists; (d1,v0), (d0,v1) optional.
func shapeActor(name string) []Pos {
	k := nd.Choice(name, 4)
	ps := []Pos{{0, 0, 0}}
	if k&1 != 0 {
		ps = append(ps, Pos{1, 0, 0})
	}
	if k&2 != 0 {
		ps = append(ps, Pos{0, 1, 0})
	}
	return ps
}

// pendingUnbondings installs up to two buckets of delegator 0 with symbolic completion
// times; the first bucket may be shared by entries of two validators (mixed bucket).
func pendingUnbondings(st *State, k int) {
	if k == 0 {
		return
	}
	c1 := nd.TimeRange("c1", TLo, THi)
	q1 := nd.IntRange("q1", "0", Pow30) // 0: an entry slashed to nothing (fraction 1) stays in its bucket
	switch k {
	case 1:
		InstallUnbonding(st.E, 0, c1, []Entry{{0, 0, q1}})
	case 2:
		q2 := nd.IntRange("q2", "1", Pow30)
		InstallUnbonding(st.E, 0, c1, []Entry{{0, 0, q1}, {1, 0, q2}})
	case 4: // two undelegations from the same validator and denom in one block share the bucket
		q2 := nd.IntRange("q2", "1", Pow30)
		InstallUnbonding(st.E, 0, c1, []Entry{{0, 0, q1}, {0, 0, q2}})
	case 6: // the bucket holds only an entry of the SAME validator in ANOTHER denom: the index key (which contains the denom) does not exist yet
		InstallUnbonding(st.E, 0, c1, []Entry{{0, 1, q1}})
	case 5: // the bucket holds only an entry of ANOTHER validator: the index of validator 0 does not exist yet
		InstallUnbonding(st.E, 0, c1, []Entry{{1, 0, q1}})
	case 3:
		q2 := nd.IntRange("q2", "1", Pow30)
		c2 := nd.TimeRange("c2", TLo, THi)
		nd.Assume(!c2.Equal(c1))
		InstallUnbonding(st.E, 0, c1, []Entry{{0, 0, q1}})
		InstallUnbonding(st.E, 0, c2, []Entry{{0, 0, q2}})
	}
}

// boundIntervals keeps the number of whole intervals since the clock within the Power unrolling bound.
func boundIntervals(st *State, t1 time.Time, n int64) {
	d := t1.Sub(st.Params.LastTakeRateClaimTime)
	nd.Assume(d <= time.Duration(n)*st.Params.TakeRateClaimInterval)
}

func c01Step(id string, op Op, ps []Pos, o Opts, pending bool) {
	pk := 0
	if pending {
		pk = nd.Choice("pending", 5)
	}
	st := Build(ps, o)
	pendingUnbondings(st, pk)
	e := st.E
	pre := Surplus(e, Denoms[0])
	if !RunOp(st, op, id, false) {
		return
	}
	nd.Reach(id)
	post := Surplus(e, Denoms[0])
	nd.ObserveInt("surplus_post", post)
	nd.ObserveInt("queued_post", QueuedTotal(e, Denoms[0]))
	nd.ObserveInt("custody_post", e.Bank.Balance(e.Ak.GetModuleAddress("alliance"), Denoms[0]))
	nd.Assert(id, post.Equal(pre))
	nd.Assert(id+".nonneg", post.GTE(math.ZeroInt()))
}

// C01: custody surplus (custody - staked total - queued unbondings) is unchanged by every
// successful operation from any RI state (one inductive step per operation).
func H_C01_step_delegate() { c01Step("C01.step.delegate", OpDelegate, shape3("shape"), Opts{}, false) }
func H_C01_step_undelegate() {
	c01Step("C01.step.undelegate", OpUndelegate, shapeActor("shape"), Opts{}, true)
}
func H_C01_step_redelegate() {
	c01Step("C01.step.redelegate", OpRedelegate, shapeActor("shape"), Opts{}, false)
}
func H_C01_step_claim() {
	c01Step("C01.step.claim", OpClaim, shapeActor("shape"), Opts{Rewards: true}, false)
}
func H_C01_step_delegate_rewards() {
	c01Step("C01.step.delegate_rewards", OpDelegate, shape3("shape"), Opts{Rewards: true}, false)
}
func H_C01_step_slash() { c01Step("C01.step.slash", OpSlash, shapeActor("shape"), Opts{}, true) }

// H_C01_step_endblock: maturing unbondings + take-rate deduction in one EndBlocker.
func H_C01_step_endblock() {
	id := "C01.step.endblock"
	ps := shapeActor("shape")
	pk := nd.Choice("pending", 4)
	o := Opts{TakeRate: true, Params: true}
	if nd.Choice("second", 2) == 1 {
		// a second take-rate asset that sorts after the first (its total may be a dust position of 1 unit)
		o.NDenoms = 2
		ps = append(ps, Pos{1, 0, 1})
	}
	st := Build(ps, o)
	pendingUnbondings(st, pk)
	e := st.E
	pre := Surplus(e, Denoms[0])
	pre1 := Surplus(e, Denoms[1])
	t1 := nd.TimeRange("t1", TLo, THi)
	nd.Assume(!t1.Before(st.T0))
	boundIntervals(st, t1, 4)
	e.WithBlock(t1, 101)
	var err error
	if Caught(func() { err = endBlock(e) }) || err != nil {
		return
	}
	nd.Reach(id)
	post := Surplus(e, Denoms[0])
	nd.ObserveInt("surplus_post", post)
	nd.Assert(id, post.Equal(pre))
	if o.NDenoms == 2 {
		nd.Assert(id, Surplus(e, Denoms[1]).Equal(pre1))
	}
}
