package h

import (
	"cosmossdk.io/math"
	sdk "github.com/cosmos/cosmos-sdk/types"

	"hv/env"
	"hv/nd"

	"github.com/terra-money/alliance/x/alliance/types"
)

func stakeBal(e *env.Env, d int) math.Int { return e.Bank.Balance(Dels[d], env.BondDenom) }

func histEqual(a, b []types.RewardHistory) bool {
	if len(a) != len(b) {
		return false
	}
	r := true
	for i := range a {
		r = nd.And(r, a[i].Denom == b[i].Denom, a[i].Alliance == b[i].Alliance, a[i].Index.Equal(b[i].Index))
	}
	return r
}

// H_C13_idem: after a successful claim the position's reward history equals the validator's,
// an immediate second claim pays nothing, and claiming changes no staked quantity.
func H_C13_idem() {
	id := "C13.idem"
	st := Build(shapeActor("shape"), Opts{Rewards: true, BigPool: true})
	e := st.E
	preL := ReadLedger(e)
	preTok, _ := e.K.GetAssetByDenom(e.Ctx, Denoms[0])
	preDel, _ := e.K.GetDelegation(e.Ctx, Dels[0], Vals[0], Denoms[0])
	preStake := stakeBal(e, 0)
	tokens := math.LegacyNewDecFromInt(types.GetDelegationTokens(preDel, AV(e, Vals[0]), preTok).Amount)
	var err error
	if Caught(func() { _, err = e.K.ClaimDelegationRewards(e.Ctx, Dels[0], AV(e, Vals[0]), Denoms[0]) }) || err != nil {
		return
	}
	nd.Reach(id)
	del, _ := e.K.GetDelegation(e.Ctx, Dels[0], Vals[0], Denoms[0])
	info, _ := e.K.GetAllianceValidatorInfo(e.Ctx, Vals[0])
	// rounded down: the payout never exceeds the exact entitlement (index gap x position tokens)
	if len(preDel.RewardHistory) == 1 && len(info.GlobalRewardHistory) == 1 && preDel.RewardHistory[0].Denom == env.BondDenom &&
		info.GlobalRewardHistory[0].Denom == env.BondDenom && preDel.RewardHistory[0].Alliance == Denoms[0] && info.GlobalRewardHistory[0].Alliance == Denoms[0] {
		gap := info.GlobalRewardHistory[0].Index.Sub(preDel.RewardHistory[0].Index)
		if gap.IsPositive() {
			nd.Assert(id+".floor", math.LegacyNewDecFromInt(stakeBal(e, 0).Sub(preStake)).LTE(gap.Mul(tokens)))
		}
	}
	nd.Assert(id+".history", histEqual(types.NewRewardHistories(info.GlobalRewardHistory).GetIndexByAlliance(Denoms[0]), del.RewardHistory))
	// neutral: no share or token quantity moved
	postL := ReadLedger(e)
	postTok, _ := e.K.GetAssetByDenom(e.Ctx, Denoms[0])
	nd.Assert(id+".neutral", nd.And(postTok.TotalTokens.Equal(preTok.TotalTokens), postTok.TotalValidatorShares.Equal(preTok.TotalValidatorShares)))
	for _, k := range preL.Keys {
		nd.Assert(id+".neutral", nd.And(postL.DelSum[k].Equal(preL.DelSum[k]), postL.TDS[k].Equal(preL.TDS[k]), postL.VS[k].Equal(preL.VS[k])))
	}
	// second claim
	mid := stakeBal(e, 0)
	var coins sdk.Coins
	if Caught(func() { coins, err = e.K.ClaimDelegationRewards(e.Ctx, Dels[0], AV(e, Vals[0]), Denoms[0]) }) || err != nil {
		nd.Assert(id+".second", false)
		return
	}
	nd.Assert(id+".second", nd.And(stakeBal(e, 0).Equal(mid), coins.IsZero()))
}

// H_C13_noretro_delegate: rewards pending in the distribution module for validator 0 before a
// NEW position is created by delegation are not payable to it: right after the delegation its
// history equals the validator's (already settled) history and a claim pays nothing.
func H_C13_noretro_delegate() {
	id := "C13.noretro.delegate"
	o := Opts{Rewards: true, BigPool: true, Hints: true}
	ps := []Pos{{1, 0, 0}}
	if nd.Choice("first_of_asset", 2) == 1 {
		// the validator's stake is in ANOTHER asset: the newcomer's delegation is the first stake of
		// its asset there (the pending rewards still belong to the earlier stakers)
		ps = []Pos{{1, 0, 1}}
		o.NDenoms = 2
	}
	st := Build(ps, o)
	e := st.E
	amt := nd.IntRange("amt", "1", Pow30)
	var err error
	if Caught(func() { _, err = e.K.Delegate(e.Ctx, Dels[0], AV(e, Vals[0]), sdk.NewCoin(Denoms[0], amt)) }) || err != nil {
		return
	}
	nd.Reach(id)
	mod := e.Ak.GetModuleAddress(types.ModuleName)
	_, pending := e.Distr.Pending[string(mod)+"/"+string(Vals[0])]
	nd.Assert(id+".settled", !pending)
	del, _ := e.K.GetDelegation(e.Ctx, Dels[0], Vals[0], Denoms[0])
	info, _ := e.K.GetAllianceValidatorInfo(e.Ctx, Vals[0])
	nd.Assert(id+".history", histEqual(info.GlobalRewardHistory, del.RewardHistory))
	pre := stakeBal(e, 0)
	if Caught(func() { _, err = e.K.ClaimDelegationRewards(e.Ctx, Dels[0], AV(e, Vals[0]), Denoms[0]) }) || err != nil {
		return
	}
	nd.Assert(id+".nopay", stakeBal(e, 0).Equal(pre))
}

// H_C13_slash_settles: the slash of a pending redelegation settles the destination position first
// (claim) and the settlement persists: afterwards the position's history equals the validator's and
// a further claim pays nothing - rewards are never claimable twice.
func H_C13_slash_settles() {
	id := "C13.slash"
	st := Build([]Pos{{0, 0, 0}, {0, 1, 0}, {1, 1, 0}}, Opts{Rewards: true, BigPool: true, StrictRewards: true, Hints: true})
	e := st.E
	c1 := nd.TimeRange("c1", TLo, THi)
	nd.Assume(!c1.Before(st.T0)) // still pending
	InstallRedelegation(e, 0, 0, 1, 0, nd.IntRange("r1", "1", Pow30), c1)
	f := nd.DecRange("fraction", "0.000000000000000001", "1")
	var err error
	if Caught(func() { err = e.K.StakingHooks().BeforeValidatorSlashed(e.Ctx, Vals[0], f) }) || err != nil {
		return // totality is C08's subject
	}
	del, found := e.K.GetDelegation(e.Ctx, Dels[0], Vals[1], Denoms[0])
	if !found {
		return
	}
	nd.Reach(id)
	info, _ := e.K.GetAllianceValidatorInfo(e.Ctx, Vals[1])
	nd.Assert(id+".history", histEqual(info.GlobalRewardHistory, del.RewardHistory))
	pre := stakeBal(e, 0)
	if Caught(func() { _, err = e.K.ClaimDelegationRewards(e.Ctx, Dels[0], AV(e, Vals[1]), Denoms[0]) }) || err != nil {
		return
	}
	nd.Assert(id+".nopay", stakeBal(e, 0).Equal(pre))
}

// H_C13_noretro_redelegate: the same for stake arriving by redelegation, at a new or an
// existing destination position (known finding: new destination positions).
func H_C13_noretro_redelegate() {
	id := "C13.noretro.redelegate"
	existing := nd.Choice("dst_exists", 2)
	ps := []Pos{{0, 0, 0}, {1, 1, 0}}
	if existing == 1 {
		ps = append(ps, Pos{0, 1, 0})
	} else {
		nd.Tag("redelegate-new-position")
	}
	st := Build(ps, Opts{Rewards: true, BigPool: true, StrictRewards: true, Hints: true})
	e := st.E
	amt := nd.IntRange("amt", "1", Pow30)
	nd.Hint(amt.Equal(math.NewInt(50)))
	var err error
	if Caught(func() {
		_, err = e.K.Redelegate(e.Ctx, Dels[0], AV(e, Vals[0]), AV(e, Vals[1]), sdk.NewCoin(Denoms[0], amt))
	}) || err != nil {
		return
	}
	nd.Reach(id)
	// whatever was pending for the destination validator before the stake arrived must be
	// settled (distributed to the positions existing then) before the new stake counts
	mod := e.Ak.GetModuleAddress(types.ModuleName)
	_, pending := e.Distr.Pending[string(mod)+"/"+string(Vals[1])]
	nd.Assert(id+".settled", !pending)
	del, _ := e.K.GetDelegation(e.Ctx, Dels[0], Vals[1], Denoms[0])
	info, _ := e.K.GetAllianceValidatorInfo(e.Ctx, Vals[1])
	nd.Assert(id+".history", histEqual(types.NewRewardHistories(info.GlobalRewardHistory).GetIndexByAlliance(Denoms[0]), types.NewRewardHistories(del.RewardHistory).GetIndexByAlliance(Denoms[0])))
}
