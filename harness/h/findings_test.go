package h

import (
	"testing"
	"time"

	"cosmossdk.io/math"
	sdk "github.com/cosmos/cosmos-sdk/types"

	"hv/env"

	"github.com/terra-money/alliance/x/alliance/types"
)

// Native demonstrations (real keeper, real cosmossdk.io/math, real codec) of the recorded
// known findings whose solver witnesses are models of the abstraction in the quick tier.
// Run: cd /verif/harness && go test -vet=off -run TestFinding ./h

func dustEnv(t *testing.T, vs0 string) (*env.Env, types.AllianceAsset) {
	t0 := time.Unix(TLo, 0).UTC()
	e := env.New(t0, 100)
	e.Stk.Unbonding = time.Hour
	for v := 0; v < 2; v++ {
		NewValidator(e, Vals[v], 3, math.NewInt(1000000), math.LegacyNewDec(1000000))
	}
	_ = e.K.SetParams(e.Ctx, types.Params{RewardDelayTime: time.Hour, TakeRateClaimInterval: 5 * time.Minute, LastTakeRateClaimTime: t0})
	v0 := math.LegacyMustNewDecFromStr(vs0)
	v1 := math.LegacyNewDec(1000).Sub(v0)
	for v, s := range []math.LegacyDec{v0, v1} {
		info := types.NewAllianceValidatorInfo()
		info.TotalDelegatorShares = sdk.NewDecCoins(sdk.NewDecCoinFromDec(Denoms[0], s))
		info.ValidatorShares = sdk.NewDecCoins(sdk.NewDecCoinFromDec(Denoms[0], s))
		_ = e.K.SetValidatorInfo(e.Ctx, Vals[v], info)
		d := types.Delegation{DelegatorAddress: Dels[v].String(), ValidatorAddress: Vals[v].String(), Denom: Denoms[0], Shares: s, LastRewardClaimHeight: 100}
		_ = e.K.SetDelegation(e.Ctx, Dels[v], Vals[v], Denoms[0], d)
	}
	a := types.AllianceAsset{Denom: Denoms[0], RewardWeight: math.LegacyOneDec(),
		RewardWeightRange: types.RewardWeightRange{Min: math.LegacyZeroDec(), Max: math.LegacyNewDec(10)}, TakeRate: math.LegacyZeroDec(),
		TotalTokens: math.NewInt(1000), TotalValidatorShares: math.LegacyNewDec(1000), RewardStartTime: t0.Add(-time.Hour),
		RewardChangeRate: math.LegacyOneDec(), LastRewardChangeTime: t0, IsInitialized: true}
	_ = e.K.SetAsset(e.Ctx, a)
	e.Bank.Fund(e.Ak.GetModuleAddress(types.ModuleName), Denoms[0], math.NewInt(1000))
	return e, a
}

func ledgerGap(e *env.Env) math.LegacyDec {
	l := ReadLedger(e)
	return l.TVS[Denoms[0]].Sub(l.VSSum[Denoms[0]])
}

// C03 clamp path: sole delegator whose value is 9.995 withdraws the reported 10 tokens.
func TestFindingC03ClampUndelegate(t *testing.T) {
	e, _ := dustEnv(t, "9.995")
	if _, err := e.K.Undelegate(e.Ctx, Dels[0], AV(e, Vals[0]), sdk.NewCoin(Denoms[0], math.NewInt(10))); err != nil {
		t.Fatal(err)
	}
	if gap := ledgerGap(e); gap.IsZero() {
		t.Fatal("expected TotalValidatorShares != sum of validator shares")
	} else {
		t.Logf("C03 clamp (undelegate): TotalValidatorShares - sum(ValidatorShares) = %s", gap)
	}
}

func TestFindingC03ClampRedelegate(t *testing.T) {
	e, _ := dustEnv(t, "9.995")
	if _, err := e.K.Redelegate(e.Ctx, Dels[0], AV(e, Vals[0]), AV(e, Vals[1]), sdk.NewCoin(Denoms[0], math.NewInt(10))); err != nil {
		t.Fatal(err)
	}
	if gap := ledgerGap(e); gap.IsZero() {
		t.Fatal("expected TotalValidatorShares != sum of validator shares")
	} else {
		t.Logf("C03 clamp (redelegate): TotalValidatorShares - sum(ValidatorShares) = %s", gap)
	}
}

// C03 dust-clear path: the validator keeps 10^-18 validator shares worth zero tokens.
func TestFindingC03DustClearUndelegate(t *testing.T) {
	e, _ := dustEnv(t, "10.000000000000000001")
	if _, err := e.K.Undelegate(e.Ctx, Dels[0], AV(e, Vals[0]), sdk.NewCoin(Denoms[0], math.NewInt(10))); err != nil {
		t.Fatal(err)
	}
	if gap := ledgerGap(e); gap.IsZero() {
		t.Fatal("expected TotalValidatorShares != sum of validator shares")
	} else {
		t.Logf("C03 dust clear (undelegate): TotalValidatorShares - sum(ValidatorShares) = %s", gap)
	}
}

func TestFindingC03DustClearRedelegate(t *testing.T) {
	e, _ := dustEnv(t, "10.000000000000000001")
	if _, err := e.K.Redelegate(e.Ctx, Dels[0], AV(e, Vals[0]), AV(e, Vals[1]), sdk.NewCoin(Denoms[0], math.NewInt(10))); err != nil {
		t.Fatal(err)
	}
	if gap := ledgerGap(e); gap.IsZero() {
		t.Fatal("expected TotalValidatorShares != sum of validator shares")
	} else {
		t.Logf("C03 dust clear (redelegate): TotalValidatorShares - sum(ValidatorShares) = %s", gap)
	}
}
