package h

import (
	"cosmossdk.io/math"
	sdk "github.com/cosmos/cosmos-sdk/types"

	"hv/env"
	"hv/nd"

	"github.com/terra-money/alliance/x/alliance/keeper"
	"github.com/terra-money/alliance/x/alliance/types"
)

// ---------------------------------------------------------------------------------------
// ideal-Q harnesses (suffix _Q): cosmossdk.io/math is interpreted as exact rational
// arithmetic. A verdict says that the repository's control and data flow computes the
// right quantity for every real-valued input; rounding is covered by leaf lemmas.
// ---------------------------------------------------------------------------------------

// H_C06_alg_Q: slashing validator 0 by f scales every position on it by (1-f)*g and every
// other position by the same g >= 1, and conserves the sum of all position values.
func H_C06_alg_Q() {
	id := "C06.alg"
	k := nd.Choice("shape", 2)
	ps := []Pos{{0, 0, 0}, {1, 1, 0}}
	if k == 1 {
		ps = append(ps, Pos{1, 0, 0})
	}
	st := Build(ps, Opts{})
	e := st.E
	f := nd.DecRange("fraction", "0.000001", "1")
	var pre []math.LegacyDec
	for _, p := range ps {
		pre = append(pre, posValue(e, p))
	}
	var err error
	if Caught(func() { err = e.K.StakingHooks().BeforeValidatorSlashed(e.Ctx, Vals[0], f) }) || err != nil {
		return
	}
	nd.Reach(id)
	var post []math.LegacyDec
	for _, p := range ps {
		post = append(post, posValue(e, p))
	}
	one := math.LegacyOneDec()
	other := 1 // index of the position on validator 1
	// nobody on another validator loses value
	tol := valTol(pre[0].Add(pre[other]))
	nd.Assert(id+".others", nd.LeqDec(pre[other], post[other], tol))
	// positions on the slashed validator lose exactly f relative to the others:
	// post_q / pre_q = (1-f) * post_o / pre_o   (cross-multiplied)
	for i, p := range ps {
		if p.V != 0 {
			continue
		}
		lhs := post[i].Mul(pre[other])
		rhs := one.Sub(f).Mul(post[other]).Mul(pre[i])
		nd.Assert(id+".proportional", nd.NearDec(lhs, rhs, valTol(lhs).Mul(valTol(pre[other]))))
	}
	// value is redistributed, not destroyed
	sumPre, sumPost := math.LegacyZeroDec(), math.LegacyZeroDec()
	for i := range ps {
		sumPre = sumPre.Add(pre[i])
		sumPost = sumPost.Add(post[i])
	}
	if f.LT(one) {
		nd.Assert(id+".conserved", nd.NearDec(sumPost, sumPre, valTol(sumPre)))
	}
}

// entitlement of a position: (validator index - position index) * token value, per the
// reward formula, as an exact decimal (the payout is its floor).
func entitlement(e *env.Env, p Pos) math.LegacyDec {
	del, found := e.K.GetDelegation(e.Ctx, Dels[p.D], Vals[p.V], Denoms[p.A])
	if !found {
		return math.LegacyZeroDec()
	}
	info, _ := e.K.GetAllianceValidatorInfo(e.Ctx, Vals[p.V])
	g, ok := types.NewRewardHistories(info.GlobalRewardHistory).GetIndexByDenom(env.BondDenom, Denoms[p.A])
	if !ok {
		return math.LegacyZeroDec()
	}
	d, ok := types.NewRewardHistories(del.RewardHistory).GetIndexByDenom(env.BondDenom, Denoms[p.A])
	idx := g.Index
	if ok {
		idx = g.Index.Sub(d.Index)
	}
	return idx.Mul(posValue(e, p))
}

// c12: pool >= sum of the entitlements of all positions is preserved by the operation
// (pending distribution rewards are settled first so that entitlements are comparable).
func c12(id string, op Op, ps []Pos) {
	// quick tier: validator-share price 1 for the stake-moving operations (delegator-share prices symbolic)
	st := Build(ps, Opts{Rewards: true, NVals: 2, StrictRewards: true, ValPriceOne: (op == OpUndelegate || op == OpRedelegate) && !nd.Thorough()})
	e := st.E
	for v := 0; v < 2; v++ {
		if Caught(func() { _, _ = e.K.ClaimValidatorRewards(e.Ctx, AV(e, Vals[v])) }) {
			return
		}
	}
	pool := func() math.LegacyDec {
		return math.LegacyNewDecFromInt(e.Bank.Balance(e.Ak.GetModuleAddress(types.RewardsPoolName), env.BondDenom))
	}
	sum := func() math.LegacyDec {
		s := math.LegacyZeroDec()
		for _, p := range ps {
			s = s.Add(entitlement(e, p))
		}
		if op == OpRedelegate && !posIn(ps, 0, 1, 0) {
			s = s.Add(entitlement(e, Pos{0, 1, 0}))
		}
		return s
	}
	nd.Assume(pool().GTE(sum())) // the invariant before the step
	// region of a known finding: payouts are computed on the reported balance, i.e. the value
	// rounded UP by the 0.01 epsilon, so a claim can pay more than the exact pro-rata entitlement
	rounded := false
	if del, found := e.K.GetDelegation(e.Ctx, Dels[0], Vals[0], Denoms[0]); found {
		asset, _ := e.K.GetAssetByDenom(e.Ctx, Denoms[0])
		if math.LegacyNewDecFromInt(types.GetDelegationTokens(del, AV(e, Vals[0]), asset).Amount).GT(posValue(e, Pos{0, 0, 0})) {
			nd.Tag("balance-rounded-up")
			rounded = true
		}
	}
	preVal := posValue(e, Pos{0, 0, 0})
	preBy := posValue(e, Pos{1, 0, 0})
	nd.ObserveDec("pre.sum", sum())
	nd.ObserveDec("pre.pool", pool())
	nd.ObserveDec("pre.val0", preVal)
	if !RunOp(st, op, id, false) {
		return
	}
	dust := false
	if op == OpUndelegate || op == OpRedelegate {
		// region of a known finding: the actor's sub-token remainder is cleared as dust and its value
		// passes to the co-delegators of the validator, whose accrued entitlements grow with it
		amt := nd.IntRange("amt", "1", Pow30)
		if _, found := e.K.GetDelegation(e.Ctx, Dels[0], Vals[0], Denoms[0]); !found && preVal.GT(math.LegacyNewDecFromInt(amt)) {
			nd.Tag("dust-cleared-remainder")
			dust = true
		}
	}
	nd.Reach(id)
	if (op == OpUndelegate || op == OpRedelegate) && !dust && !rounded {
		// cut lemma: without dust clearing the co-delegator's position on the source validator
		// does not gain value (it is unchanged, or shrinks when the removed shares were capped)
		nd.Assert(id+".bystander", nd.LeqDec(posValue(e, Pos{1, 0, 0}), preBy, valTol(preBy)))
	}
	if op == OpDelegate {
		// cut lemma (decided first, then available to the main obligation): the value of the
		// co-delegator's position is unchanged by a delegation - exact over the reals
		nd.Assert(id+".bystander", nd.EqIdeal(posValue(e, Pos{1, 0, 0}), preBy, valTol(preBy)))
	}
	nd.ObserveDec("post.sum", sum())
	nd.ObserveDec("post.pool", pool())
	nd.Assert(id, nd.LeqDec(sum(), pool(), math.LegacyNewDec(int64(len(ps)+2))))
}

func H_C12_step_claim_Q() { c12("C12.step.claim", OpClaim, []Pos{{0, 0, 0}, {1, 0, 0}, {1, 1, 0}}) }
func H_C12_step_delegate_Q() {
	c12("C12.step.delegate", OpDelegate, []Pos{{0, 0, 0}, {1, 0, 0}, {1, 1, 0}})
}
func H_C12_step_undelegate_Q() { c12("C12.step.undelegate", OpUndelegate, []Pos{{0, 0, 0}, {1, 0, 0}}) }
func H_C12_step_redelegate_Q() {
	if nd.Thorough() {
		c12("C12.step.redelegate", OpRedelegate, []Pos{{0, 0, 0}, {1, 0, 0}, {0, 1, 0}})
		return
	}
	// quick tier: the actor has no position on the destination validator yet
	c12("C12.step.redelegate", OpRedelegate, []Pos{{0, 0, 0}, {1, 0, 0}})
}

// H_C12_step_redelegate_existing_Q: the actor already holds a position on the destination validator
// (its accrued rewards must be settled before the stake arrives) - no co-delegators, so that the
// quick tier decides it.
func H_C12_step_redelegate_existing_Q() {
	c12("C12.step.redelegate_existing", OpRedelegate, []Pos{{0, 0, 0}, {0, 1, 0}})
}

func H_C12_step_slash_Q() {
	nd.Tag("slash-with-unclaimed-rewards")
	c12("C12.step.slash", OpSlash, []Pos{{0, 0, 0}, {1, 0, 0}, {1, 1, 0}})
}

// H_C12_deposit_Q: a reward deposit of c for validator 0 raises the sum of entitlements of
// its positions by at most c (and by exactly c when every staked asset has started).
func H_C12_deposit_Q() {
	id := "C12.deposit"
	ps := []Pos{{0, 0, 0}, {1, 0, 0}}
	st := Build(ps, Opts{Rewards: true})
	e := st.E
	pre := math.LegacyZeroDec()
	// entitlements before the deposit, as exact decimals (no truncation)
	entitle := func() math.LegacyDec {
		s := math.LegacyZeroDec()
		info, _ := e.K.GetAllianceValidatorInfo(e.Ctx, Vals[0])
		for _, p := range ps {
			del, _ := e.K.GetDelegation(e.Ctx, Dels[p.D], Vals[p.V], Denoms[p.A])
			if len(info.GlobalRewardHistory) == 0 || len(del.RewardHistory) == 0 {
				continue
			}
			s = s.Add(info.GlobalRewardHistory[0].Index.Sub(del.RewardHistory[0].Index).Mul(posValue(e, p)))
		}
		return s
	}
	pre = entitle()
	mod := e.Ak.GetModuleAddress(types.ModuleName)
	c := math.LegacyZeroDec()
	if pend, ok := e.Distr.Pending[string(mod)+"/"+string(Vals[0])]; ok {
		c = math.LegacyNewDecFromInt(pend.AmountOf(env.BondDenom))
	}
	if Caught(func() { _, _ = e.K.ClaimValidatorRewards(e.Ctx, AV(e, Vals[0])) }) {
		return
	}
	nd.Reach(id)
	nd.Assert(id, nd.NearDec(entitle().Sub(pre), c, valTol(c)))
}

// H_C13_prorata_Q: a deposit for a validator staking two started assets is split between them
// in proportion to rewardWeight * (asset tokens on the validator / asset total).
func H_C13_prorata_Q() {
	id := "C13.prorata"
	ps := []Pos{{0, 0, 0}, {1, 0, 1}}
	st := Build(ps, Opts{Rewards: true, NDenoms: 2})
	e := st.E
	info0, _ := e.K.GetAllianceValidatorInfo(e.Ctx, Vals[0])
	mod := e.Ak.GetModuleAddress(types.ModuleName)
	pend, ok := e.Distr.Pending[string(mod)+"/"+string(Vals[0])]
	if !ok {
		return
	}
	c := math.LegacyNewDecFromInt(pend.AmountOf(env.BondDenom))
	var w, vt [2]math.LegacyDec
	for a := 0; a < 2; a++ {
		asset, _ := e.K.GetAssetByDenom(e.Ctx, Denoms[a])
		vt[a] = AV(e, Vals[0]).TotalTokensWithAsset(asset)
		w[a] = asset.RewardWeight.Mul(vt[a]).QuoInt(asset.TotalTokens)
	}
	if Caught(func() { _, _ = e.K.ClaimValidatorRewards(e.Ctx, AV(e, Vals[0])) }) {
		return
	}
	nd.Reach(id)
	info1, _ := e.K.GetAllianceValidatorInfo(e.Ctx, Vals[0])
	idx := func(info types.AllianceValidatorInfo, denom string) math.LegacyDec {
		h, found := types.NewRewardHistories(info.GlobalRewardHistory).GetIndexByDenom(env.BondDenom, denom)
		if !found {
			return math.LegacyZeroDec()
		}
		return h.Index
	}
	var got [2]math.LegacyDec
	for a := 0; a < 2; a++ {
		got[a] = idx(info1, Denoms[a]).Sub(idx(info0, Denoms[a])).Mul(vt[a]) // what the asset's positions receive in total
	}
	nd.Assert(id+".split", nd.NearDec(got[0].Mul(w[1]), got[1].Mul(w[0]), valTol(c)))
	nd.Assert(id+".total", nd.NearDec(got[0].Add(got[1]), c, valTol(c)))
}

// H_C05_exit_Q: Undelegate(reported balance) succeeds for every position with a positive balance.
func H_C05_exit_Q() {
	id := "C05.exit.ideal"
	st := Build(shapeActor("shape"), Opts{TinyTDS: true})
	e := st.E
	asset, _ := e.K.GetAssetByDenom(e.Ctx, Denoms[0])
	del, _ := e.K.GetDelegation(e.Ctx, Dels[0], Vals[0], Denoms[0])
	av0 := AV(e, Vals[0])
	balance := types.GetDelegationTokens(del, av0, asset).Amount
	nd.Assume(balance.GT(math.ZeroInt()))
	exact := types.ConvertNewShareToDecToken(av0.TotalTokensWithAsset(asset), av0.TotalDelegationSharesWithDenom(Denoms[0]), del.Shares)
	// regions of the known findings, computed with the library calls the repository uses (not by
	// running the code under test): the reported balance is the value rounded UP, and
	//  - it is worth at least one whole share more than the position holds (the request is refused), or
	//  - it is worth more validator shares than the validator holds (ReduceShares clamps or panics)
	req := types.GetDelegationSharesFromTokens(av0, asset, balance)
	if math.LegacyNewDecFromInt(balance).GT(exact) {
		if req.TruncateDec().GT(del.Shares) {
			nd.Tag("balance-rounded-up")
		}
		if types.GetValidatorShares(asset, balance).GT(av0.ValidatorSharesWithDenom(Denoms[0])) {
			nd.Tag("valshare-clamp")
		}
	}
	if av0.TotalDelegationSharesWithDenom(Denoms[0]).TruncateInt().IsZero() {
		nd.Tag("tds-below-one") // GetDelegationSharesFromTokens prices shares 1:1 when the validator's delegator shares truncate to zero
	}
	ms := keeper.NewMsgServerImpl(e.K)
	var err error
	nd.Reach(id)
	NoPanic(id, func() {
		_, err = ms.Undelegate(e.Ctx, &types.MsgUndelegate{DelegatorAddress: Dels[0].String(), ValidatorAddress: Vals[0].String(), Amount: sdk.NewCoin(Denoms[0], balance)})
	})
	nd.Assert(id, err == nil)
}

// valTol: native replay tolerance for a value of magnitude x: 3 base units + 10^-9 relative
// (the 18-digit library loses at most 10^-18 relative per operation; histories are short).
func valTol(x math.LegacyDec) math.LegacyDec {
	return math.LegacyNewDec(3).Add(x.Abs().Mul(math.LegacyNewDecWithPrec(1, 9)))
}
