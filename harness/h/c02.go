package h

import (
	"bytes"
	"time"

	"cosmossdk.io/math"
	sdk "github.com/cosmos/cosmos-sdk/types"

	"hv/env"
	"hv/nd"

	"github.com/terra-money/alliance/x/alliance/types"
)

// bucket reads one (completion, delegator) bucket straight from the store.
func bucket(e *env.Env, c time.Time, d int) (types.QueuedUndelegation, bool) {
	var q types.QueuedUndelegation
	b, _ := e.Store.Get(types.GetUndelegationQueueKey(c, Dels[d]))
	if b == nil {
		return q, false
	}
	e.Codec().MustUnmarshal(b, &q)
	return q, true
}

func hasIndex(e *env.Env, v int, c time.Time, a, d int) bool {
	ok, _ := e.Store.Has(types.GetUnbondingIndexKey(Vals[v], c, Denoms[a], Dels[d]))
	return ok
}

func bal(e *env.Env, d int, a int) math.Int { return e.Bank.Balance(Dels[d], Denoms[a]) }

func boolEq(a, b bool) bool { return nd.Or(nd.And(a, b), nd.And(nd.Not(a), nd.Not(b))) }

// H_C02_enqueue: a successful Undelegate(a) at block time t appends exactly one entry
// {delegator, validator, a} to the bucket (t+U, delegator), creates its index key, pays
// nothing now and leaves every other bucket untouched.
func H_C02_enqueue() {
	id := "C02.enqueue"
	ps := shapeActor("shape")
	pk := nd.Choice("pending", 6)
	if pk >= 4 {
		pk++ // 5: bucket with an entry of another validator only; 6: of the same validator in another denom only
	}
	st := Build(ps, Opts{})
	pendingUnbondings(st, pk) // existing buckets of the same delegator, possibly at the same completion time
	e := st.E
	U, _ := e.Stk.UnbondingTime(e.Ctx)
	c := st.T0.Add(U)
	preB, preFound := bucket(e, c, 0)
	preBal := bal(e, 0, 0)
	preItems := len(e.Store.Items)
	amt := nd.IntRange("amt", "1", Pow30)
	var err error
	var ret *time.Time
	if Caught(func() { ret, err = e.K.Undelegate(e.Ctx, Dels[0], AV(e, Vals[0]), sdk.NewCoin(Denoms[0], amt)) }) || err != nil {
		return
	}
	nd.Reach(id)
	nd.Assert(id+".time", ret.Equal(c))
	postB, found := bucket(e, c, 0)
	nd.Assert(id+".bucket", found)
	if !found {
		return
	}
	n := 0
	if preFound {
		n = len(preB.Entries)
	}
	nd.Assert(id+".bucket", len(postB.Entries) == n+1)
	if len(postB.Entries) != n+1 {
		return
	}
	for i := 0; i < n; i++ { // earlier entries unchanged
		nd.Assert(id+".frame", nd.And(postB.Entries[i].ValidatorAddress == preB.Entries[i].ValidatorAddress,
			postB.Entries[i].Balance.Denom == preB.Entries[i].Balance.Denom,
			postB.Entries[i].Balance.Amount.Equal(preB.Entries[i].Balance.Amount)))
	}
	last := postB.Entries[n]
	nd.Assert(id+".entry", nd.And(last.DelegatorAddress == Dels[0].String(), last.ValidatorAddress == Vals[0].String(),
		last.Balance.Denom == Denoms[0], last.Balance.Amount.Equal(amt)))
	nd.Assert(id+".index", hasIndex(e, 0, c, 0, 0))
	nd.Assert(id+".nopayout", bal(e, 0, 0).Equal(preBal))
	_ = preItems
}

// matureState installs buckets with symbolic completion times:
// d0: bucket c1 {v0: q1 [, v1: q2]}, optional second bucket c2 {v0: q3}; d1: bucket c3 {v0: q4}.
type mb struct {
	d       int
	c       time.Time
	entries []Entry
}

func matureBuckets(st *State, k int) []mb {
	c1 := nd.TimeRange("c1", TLo, THi)
	q1 := nd.IntRange("q1", "0", Pow30)
	bs := []mb{{0, c1, []Entry{{0, 0, q1}}}}
	if k&1 != 0 { // mixed bucket
		bs[0].entries = append(bs[0].entries, Entry{1, 0, nd.IntRange("q2", "0", Pow30)})
	}
	if k&2 != 0 { // second bucket of the same delegator
		c2 := nd.TimeRange("c2", TLo, THi)
		nd.Assume(!c2.Equal(c1))
		bs = append(bs, mb{0, c2, []Entry{{0, 0, nd.IntRange("q3", "0", Pow30)}}})
	}
	if k&4 != 0 { // other delegator (same or different time)
		c3 := nd.TimeRange("c3", TLo, THi)
		bs = append(bs, mb{1, c3, []Entry{{0, 0, nd.IntRange("q4", "0", Pow30)}}})
	}
	for _, b := range bs {
		InstallUnbonding(st.E, b.d, b.c, b.entries)
	}
	return bs
}

// H_C02_mature: CompleteUnbondings (through EndBlocker) at symbolic block time b pays bucket i
// in full to its delegator and deletes it with all its index keys iff c_i < b; everything else
// is untouched and nobody else is paid.
func H_C02_mature() {
	id := "C02.mature"
	k := nd.Choice("buckets", 8)
	st := Build([]Pos{{0, 0, 0}}, Opts{})
	e := st.E
	bs := matureBuckets(st, k)
	pre0, pre1 := bal(e, 0, 0), bal(e, 1, 0)
	preMod := e.Bank.Balance(e.Ak.GetModuleAddress(types.ModuleName), Denoms[0])
	b := nd.TimeRange("b", TLo, THi)
	nd.Assume(!b.Before(st.T0))
	e.WithBlock(b, 101)
	var err error
	if Caught(func() { err = endBlock(e) }) || err != nil {
		nd.Assert(id+".total", false)
		return
	}
	nd.Reach(id)
	pay0, pay1 := math.ZeroInt(), math.ZeroInt()
	for _, bk := range bs {
		mature := bk.c.Before(b)
		post, found := bucket(e, bk.c, bk.d)
		nd.Assert(id+".iff", boolEq(found, nd.Not(mature)))
		sum := math.ZeroInt()
		for i, en := range bk.entries {
			sum = sum.Add(en.Amt)
			nd.Assert(id+".index", boolEq(hasIndex(e, en.V, bk.c, en.A, bk.d), nd.Not(mature)))
			if found && len(post.Entries) == len(bk.entries) {
				nd.Assert(id+".frame", post.Entries[i].Balance.Amount.Equal(en.Amt))
			}
		}
		if found {
			nd.Assert(id+".frame", len(post.Entries) == len(bk.entries))
		}
		paid := nd.IteInt(mature, sum, math.ZeroInt())
		if bk.d == 0 {
			pay0 = pay0.Add(paid)
		} else {
			pay1 = pay1.Add(paid)
		}
	}
	nd.Assert(id+".payout", bal(e, 0, 0).Equal(pre0.Add(pay0)))
	nd.Assert(id+".payout", bal(e, 1, 0).Equal(pre1.Add(pay1)))
	nd.Assert(id+".custody", e.Bank.Balance(e.Ak.GetModuleAddress(types.ModuleName), Denoms[0]).Equal(preMod.Sub(pay0).Sub(pay1)))
}

// H_C02_once: Undelegate at t0, EndBlocker at b1, EndBlocker at b2 >= b1: the delegator has
// received a*[c<b1] after the first and a*[c<b2] in total - never twice, never early.
func H_C02_once() {
	id := "C02.once"
	st := Build(shapeActor("shape"), Opts{})
	e := st.E
	U, _ := e.Stk.UnbondingTime(e.Ctx)
	c := st.T0.Add(U)
	pre := bal(e, 0, 0)
	amt := nd.IntRange("amt", "1", Pow30)
	var err error
	if Caught(func() { _, err = e.K.Undelegate(e.Ctx, Dels[0], AV(e, Vals[0]), sdk.NewCoin(Denoms[0], amt)) }) || err != nil {
		return
	}
	// voting-power rebalancing is not the subject here (C10/C11): drop the request
	e.K.ConsumeAssetRebalanceEvent(e.Ctx)
	b1 := nd.TimeRange("b1", TLo, THi)
	b2 := nd.TimeRange("b2", TLo, THi)
	nd.Assume(!b1.Before(st.T0))
	nd.Assume(!b2.Before(b1))
	e.WithBlock(b1, 101)
	if Caught(func() { err = endBlock(e) }) || err != nil {
		nd.Assert(id+".total", false)
		return
	}
	nd.Assert(id+".first", bal(e, 0, 0).Equal(pre.Add(nd.IteInt(c.Before(b1), amt, math.ZeroInt()))))
	e.WithBlock(b2, 102)
	if Caught(func() { err = endBlock(e) }) || err != nil {
		nd.Assert(id+".total", false)
		return
	}
	nd.Reach(id)
	nd.Assert(id+".second", bal(e, 0, 0).Equal(pre.Add(nd.IteInt(c.Before(b2), amt, math.ZeroInt()))))
	_, found := bucket(e, c, 0)
	nd.Assert(id+".gone", boolEq(found, nd.Not(c.Before(b2))))
	nd.Assert(id+".gone", boolEq(hasIndex(e, 0, c, 0, 0), nd.Not(c.Before(b2))))
}

// H_C02_keys: the key builders and parsers of the unbonding queue and its index are inverse
// to each other for every time, and bucket keys order chronologically.
func H_C02_keys() {
	id := "C02.keys"
	t1 := nd.TimeRange("k1", TLo, THi)
	t2 := nd.TimeRange("k2", TLo, THi)
	d := nd.Choice("del", 2)
	v := nd.Choice("val", 2)
	nd.Reach(id)
	qk := types.GetUndelegationQueueKey(t1, Dels[d])
	pt, err := types.ParseUndelegationQueueKeyForCompletionTime(qk)
	nd.Assert(id+".parse", nd.And(err == nil, pt.Equal(t1)))
	ik := types.GetUnbondingIndexKey(Vals[v], t1, Denoms[0], Dels[d])
	back, bt, err := types.ParseUnbondingIndexKeyToUndelegationKey(ik)
	nd.Assert(id+".index", nd.And(err == nil, bt.Equal(t1), bytes.Equal(back, qk)))
	gt, err := types.GetTimeFromUndelegationKey(ik)
	nd.Assert(id+".index", nd.And(err == nil, gt.Equal(t1)))
	// chronological order of bucket keys and of the scan bound
	qk2 := types.GetUndelegationQueueKey(t2, Dels[d])
	cmp := bytes.Compare(qk, qk2)
	nd.Assert(id+".order", boolEq(cmp < 0, t1.Before(t2)))
	bound := types.GetUndelegationQueueKeyByTime(t2)
	nd.Assert(id+".bound", boolEq(bytes.Compare(qk, bound) < 0, t1.Before(t2)))
}
