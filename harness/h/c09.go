package h

import (
	"time"

	"cosmossdk.io/math"

	"hv/env"
	"hv/nd"

	"github.com/terra-money/alliance/x/alliance/types"
)

// takeRateState: one asset (denom 0) with a positive take rate and stake on validator 0, a
// second asset that must never be charged (rate 0, or not yet started, or nothing staked).
// The take-rate clock (interval, last claim) is symbolic.
func takeRateState(tok0 math.Int, rate math.LegacyDec, second int) (*env.Env, time.Time, types.Params) {
	t0 := nd.TimeRange("t0", TLo, THi)
	e := env.New(t0, 100)
	NewValidator(e, Vals[0], 3, math.NewInt(1000000), math.LegacyNewDec(1000000))
	iv := nd.DurRange("claim_iv", 1, int64(366*24*time.Hour))
	last := nd.TimeRange("last_claim", TLo, THi)
	nd.Assume(!last.After(t0))
	p := types.Params{RewardDelayTime: time.Hour, TakeRateClaimInterval: iv, LastTakeRateClaimTime: last}
	if err := e.K.SetParams(e.Ctx, p); err != nil {
		panic(err)
	}
	mk := func(denom string, tok math.Int, r math.LegacyDec, start time.Time) {
		a := types.AllianceAsset{Denom: denom, RewardWeight: math.LegacyOneDec(),
			RewardWeightRange: types.RewardWeightRange{Min: math.LegacyZeroDec(), Max: math.LegacyNewDec(10)},
			TakeRate:          r, TotalTokens: tok, TotalValidatorShares: math.LegacyNewDecFromInt(tok),
			RewardStartTime: start, RewardChangeRate: math.LegacyOneDec(), LastRewardChangeTime: start, IsInitialized: true}
		if err := e.K.SetAsset(e.Ctx, a); err != nil {
			panic(err)
		}
		e.Bank.Fund(e.Ak.GetModuleAddress(types.ModuleName), denom, tok)
	}
	mk(Denoms[0], tok0, rate, t0.Add(-time.Hour))
	switch second {
	case 1: // rate zero
		mk(Denoms[1], math.NewInt(5000), math.LegacyZeroDec(), t0.Add(-time.Hour))
	case 2: // still in warm-up for the whole run
		mk(Denoms[1], math.NewInt(5000), math.LegacyNewDecWithPrec(5, 1), time.Unix(THi+1000, 0).UTC())
	case 3: // nothing staked
		mk(Denoms[1], math.ZeroInt(), math.LegacyNewDecWithPrec(5, 1), t0.Add(-time.Hour))
	case 4: // a dust-only asset (skipped by the "<= 1" guard) that is processed BEFORE the charged one
		mk(DustDenom, math.OneInt(), math.LegacyNewDecWithPrec(5, 1), t0.Add(-time.Hour))
	}
	return e, t0, p
}

func clock(e *env.Env) time.Time { return e.K.LastRewardClaimTime(e.Ctx) }

// H_C09_warmup: while the only asset with a take rate is still in its warm-up period nothing is
// charged and the clock keeps pace with the block time - otherwise the first deduction after the
// start would compound over the intervals that elapsed during the warm-up (retroactive charge).
func H_C09_warmup() {
	id := "C09.warmup"
	t0 := nd.TimeRange("t0", TLo, THi)
	e := env.New(t0, 100)
	NewValidator(e, Vals[0], 3, math.NewInt(1000000), math.LegacyNewDec(1000000))
	iv := nd.DurRange("claim_iv", 1, int64(366*24*time.Hour))
	last := nd.TimeRange("last_claim", TLo, THi)
	nd.Assume(!last.After(t0))
	if err := e.K.SetParams(e.Ctx, types.Params{RewardDelayTime: time.Hour, TakeRateClaimInterval: iv, LastTakeRateClaimTime: last}); err != nil {
		panic(err)
	}
	tok := nd.IntRange("T", "2", Pow30)
	start := nd.TimeRange("start", TLo, THi)
	a := types.AllianceAsset{Denom: Denoms[0], RewardWeight: math.LegacyOneDec(),
		RewardWeightRange: types.RewardWeightRange{Min: math.LegacyZeroDec(), Max: math.LegacyNewDec(10)},
		TakeRate:          nd.DecRange("rate", "0.000000000000000001", "0.999999999999999999"), TotalTokens: tok, TotalValidatorShares: math.LegacyNewDecFromInt(tok),
		RewardStartTime: start, RewardChangeRate: math.LegacyOneDec(), LastRewardChangeTime: start, IsInitialized: false}
	if err := e.K.SetAsset(e.Ctx, a); err != nil {
		panic(err)
	}
	e.Bank.Fund(e.Ak.GetModuleAddress(types.ModuleName), Denoms[0], tok)
	t1 := nd.TimeRange("t1", TLo, THi)
	nd.Assume(nd.And(!t1.Before(t0), t1.Before(start))) // still warming up at the block under test
	nd.Assume(t1.After(last.Add(iv)))                   // the hook is due
	e.WithBlock(t1, 101)
	fee := e.Ak.GetModuleAddress("fee_collector")
	var err error
	nd.Reach(id)
	if !NoPanic(id, func() { _, err = e.K.DeductAssetsHook(e.Ctx, e.K.GetAllAssets(e.Ctx)) }) {
		return
	}
	post, _ := e.K.GetAssetByDenom(e.Ctx, Denoms[0])
	nd.Assert(id, nd.And(err == nil, post.TotalTokens.Equal(tok), e.Bank.Balance(fee, Denoms[0]).IsZero()))
	nd.Assert(id+".clock", clock(e).Equal(t1))
}

// H_C09_clock_X (exact arithmetic, symbolic clock): the deduction fires iff now > last+interval;
// when coins move the clock advances by exactly n whole intervals, never past the block time,
// and lags it by less than one interval.
func H_C09_clock_X() {
	id := "C09.clock"
	e, t0, p := takeRateState(math.NewInt(1000000), math.LegacyNewDecWithPrec(5, 1), 0)
	t1 := nd.TimeRange("t1", TLo, THi)
	nd.Assume(!t1.Before(t0))
	nd.Assume(t1.Sub(p.LastTakeRateClaimTime) <= 8*p.TakeRateClaimInterval)
	e.WithBlock(t1, 101)
	fee := e.Ak.GetModuleAddress("fee_collector")
	var err error
	nd.Reach(id)
	if !NoPanic(id, func() { _, err = e.K.DeductAssetsHook(e.Ctx, e.K.GetAllAssets(e.Ctx)) }) {
		return
	}
	nd.Assert(id+".ok", err == nil)
	due := t1.After(p.LastTakeRateClaimTime.Add(p.TakeRateClaimInterval))
	moved := e.Bank.Balance(fee, Denoms[0]).IsPositive()
	nd.Assert(id+".iff", boolEq(moved, due)) // rate 1/2 on 10^6 tokens always moves coins when due
	post := clock(e)
	if moved {
		lag := t1.Sub(post)
		nd.Assert(id+".bounded", nd.And(!post.After(t1), lag < p.TakeRateClaimInterval))
		adv := post.Sub(p.LastTakeRateClaimTime)
		nd.Assert(id+".whole", nd.And(adv > 0, adv%p.TakeRateClaimInterval == 0))
	} else {
		nd.Assert(id+".idle", post.Equal(p.LastTakeRateClaimTime))
	}
}

// H_C09_transfer: for n whole intervals each charged asset goes from T to T' with 1 <= T' <= T,
// exactly T-T' moves from custody to the fee collector, the asset's shares are untouched, and
// assets with rate 0, in warm-up or without stake are not charged.
func H_C09_transfer() {
	id := "C09.transfer"
	second := nd.Choice("second", 5)
	tok := nd.IntRange("T", "1", Pow30)
	rate := nd.DecRange("rate", "0.000000000000000001", "0.999999999999999999")
	e, t0, p := takeRateState(tok, rate, second)
	t1 := nd.TimeRange("t1", TLo, THi)
	nd.Assume(!t1.Before(t0))
	nd.Assume(t1.Sub(p.LastTakeRateClaimTime) <= 4*p.TakeRateClaimInterval)
	e.WithBlock(t1, 101)
	fee := e.Ak.GetModuleAddress("fee_collector")
	var pre2 types.AllianceAsset
	other := Denoms[1]
	if second == 4 {
		other = DustDenom
	}
	if second != 0 {
		pre2, _ = e.K.GetAssetByDenom(e.Ctx, other)
	}
	var err error
	nd.Reach(id)
	if !NoPanic(id, func() { _, err = e.K.DeductAssetsHook(e.Ctx, e.K.GetAllAssets(e.Ctx)) }) {
		return
	}
	nd.Assert(id+".ok", err == nil)
	a, _ := e.K.GetAssetByDenom(e.Ctx, Denoms[0])
	nd.Assert(id+".range", nd.And(a.TotalTokens.GTE(math.OneInt()), a.TotalTokens.LTE(tok)))
	// the charged total is what the compounding formula gives, whatever else is in the asset list:
	// n whole intervals, multiplier (1-r)^n, floor - unless that would leave <= 1 unit
	due := t1.After(p.LastTakeRateClaimTime.Add(p.TakeRateClaimInterval))
	if due {
		n := uint64(t1.Sub(p.LastTakeRateClaimTime) / p.TakeRateClaimInterval)
		want := math.LegacyOneDec().Sub(rate).Power(n).MulInt(tok)
		nd.Assert(id+".formula", a.TotalTokens.Equal(nd.IteInt(want.LTE(math.LegacyOneDec()), tok, want.TruncateInt())))
	} else {
		nd.Assert(id+".formula", a.TotalTokens.Equal(tok))
	}
	moved := tok.Sub(a.TotalTokens)
	nd.Assert(id+".exact", nd.And(e.Bank.Balance(fee, Denoms[0]).Equal(moved), moduleBal(e, Denoms[0]).Equal(a.TotalTokens)))
	nd.Assert(id+".shares", a.TotalValidatorShares.Equal(math.LegacyNewDecFromInt(tok)))
	if second != 0 {
		b, _ := e.K.GetAssetByDenom(e.Ctx, other)
		nd.Assert(id+".exempt", nd.And(b.TotalTokens.Equal(pre2.TotalTokens), e.Bank.Balance(fee, other).IsZero(),
			moduleBal(e, other).Equal(pre2.TotalTokens)))
	}
}

// H_C09_noretro_X (exact): after an end-of-block in which the deduction was due, the clock lags
// the block time by less than one interval, so stake deposited afterwards can be charged at
// most for the interval in progress. Known finding: dust-only / no-transfer periods stall the clock.
func H_C09_noretro_X() {
	id := "C09.noretro"
	dust := nd.Choice("dust", 2)
	tok := math.NewInt(1000000)
	if dust == 1 {
		tok = math.OneInt() // floor(m*1) <= 1: the asset is skipped forever
		nd.Tag("dust-only-asset")
	}
	e, t0, p := takeRateState(tok, math.LegacyNewDecWithPrec(5, 1), 0)
	t1 := nd.TimeRange("t1", TLo, THi)
	nd.Assume(!t1.Before(t0))
	nd.Assume(t1.Sub(p.LastTakeRateClaimTime) <= 8*p.TakeRateClaimInterval)
	nd.Assume(t1.After(p.LastTakeRateClaimTime.Add(p.TakeRateClaimInterval))) // due
	e.WithBlock(t1, 101)
	var err error
	nd.Reach(id)
	if !NoPanic(id, func() { err = endBlock(e) }) {
		return
	}
	nd.Assert(id+".ok", err == nil)
	lag := t1.Sub(clock(e))
	nd.Assert(id, nd.And(lag >= 0, lag < p.TakeRateClaimInterval))
}
