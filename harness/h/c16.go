package h

import (
	"time"

	"cosmossdk.io/math"
	sdk "github.com/cosmos/cosmos-sdk/types"

	"hv/env"
	"hv/nd"

	"github.com/terra-money/alliance/x/alliance"
	"github.com/terra-money/alliance/x/alliance/keeper"
	"github.com/terra-money/alliance/x/alliance/types"
)

// symDec: a decimal field of a governance message: nil, or any value in [-10^6, 10^6].
func symDec(name string, nilable int) math.LegacyDec {
	if nilable == 1 {
		return nd.NilDec()
	}
	return nd.DecRange(name, "-1000000", "1000000")
}

// signer: the configured authority, another well-formed address, or garbage.
func signer(e *env.Env, k int) string {
	switch k {
	case 0:
		return e.Authority
	case 1:
		return Dels[0].String()
	}
	return "garbage"
}

// assetOK is the validity predicate of C16 on a stored asset.
func assetOK(a types.AllianceAsset) bool {
	if a.TakeRate.IsNil() || a.RewardWeight.IsNil() || a.RewardWeightRange.Min.IsNil() || a.RewardWeightRange.Max.IsNil() || a.RewardChangeRate.IsNil() {
		return false
	}
	return nd.And(a.TakeRate.GTE(math.LegacyZeroDec()), a.TakeRate.LT(math.LegacyOneDec()),
		a.RewardWeightRange.Min.LTE(a.RewardWeight), a.RewardWeight.LTE(a.RewardWeightRange.Max),
		a.RewardChangeRate.IsPositive(), a.RewardChangeInterval >= 0)
}

// govState: an asset "alpha" with stake (symbolic totals), optionally a second empty one.
func govState() (*env.Env, types.AllianceAsset) {
	t0 := nd.TimeRange("t0", TLo, THi)
	e := env.New(t0, 100)
	NewValidator(e, Vals[0], 3, math.NewInt(1000000), math.LegacyNewDec(1000000))
	_ = e.K.SetParams(e.Ctx, types.Params{RewardDelayTime: time.Hour, TakeRateClaimInterval: 5 * time.Minute, LastTakeRateClaimTime: t0})
	a := types.AllianceAsset{Denom: Denoms[0], RewardWeight: nd.DecRange("w", "0", "10"),
		RewardWeightRange: types.RewardWeightRange{Min: math.LegacyZeroDec(), Max: math.LegacyNewDec(10)},
		TakeRate:          nd.DecRange("rate", "0", "0.999999999999999999"), TotalTokens: nd.IntRange("T", "0", Pow30),
		TotalValidatorShares: nd.DecRange("tvs", "0", Pow30), RewardStartTime: nd.TimeRange("start", TLo, THi),
		RewardChangeRate: math.LegacyOneDec(), RewardChangeInterval: 0, IsInitialized: nd.Choice("init", 2) == 1}
	a.LastRewardChangeTime = a.RewardStartTime
	_ = e.K.SetAsset(e.Ctx, a)
	return e, a
}

// H_C16_create: CreateAlliance succeeds only for the authority, only for a new denom, and the
// stored asset satisfies the validity predicate; a rejected request leaves the store unchanged.
func H_C16_create() {
	id := "C16.create"
	sg := nd.Choice("signer", 3)
	nl := nd.Choice("nil", 6) // which decimal field is nil (0: none)
	dn := nd.Choice("denom", 3)
	e, _ := govState()
	denom := []string{Denoms[1], Denoms[0], ""}[dn]
	msg := &types.MsgCreateAlliance{
		Authority: signer(e, sg), Denom: denom,
		RewardWeight:         symDec("m_w", b2i(nl == 1)),
		TakeRate:             symDec("m_rate", b2i(nl == 2)),
		RewardChangeRate:     symDec("m_cr", b2i(nl == 3)),
		RewardChangeInterval: nd.DurRange("m_ci", -(1 << 62), 1<<62),
		RewardWeightRange:    types.RewardWeightRange{Min: symDec("m_min", b2i(nl == 4)), Max: symDec("m_max", b2i(nl == 5))},
	}
	ms := keeper.NewMsgServerImpl(e.K)
	pre := e.Store.Clone()
	var err error
	nd.Reach(id)
	panicked := Caught(func() { _, err = ms.CreateAlliance(e.Ctx, msg) })
	if panicked || err != nil {
		return // rejected (transaction semantics discard its writes)
	}
	nd.Assert(id+".gate", sg == 0)
	nd.Assert(id+".once", dn == 0)
	a, found := e.K.GetAssetByDenom(e.Ctx, denom)
	nd.Assert(id+".pred", found && assetOK(a))
	if found {
		nd.Assert(id+".fresh", nd.And(a.TotalTokens.IsZero(), a.TotalValidatorShares.IsZero()))
	}
	// the other asset is untouched
	old, _ := e.K.GetAssetByDenom(e.Ctx, Denoms[0])
	var was types.AllianceAsset
	b, _ := pre.Get(types.GetAssetKey(Denoms[0]))
	e.Codec().MustUnmarshal(b, &was)
	nd.Assert(id+".frame", nd.And(old.TotalTokens.Equal(was.TotalTokens), old.RewardWeight.Equal(was.RewardWeight), old.TakeRate.Equal(was.TakeRate)))
}

func b2i(b bool) int {
	if b {
		return 1
	}
	return 0
}

// H_C16_update: UpdateAlliance succeeds only for the authority and an existing denom, leaves
// staked total, share total, denom, start time and initialisation flag unchanged and stores
// an asset satisfying the validity predicate.
func H_C16_update() {
	id := "C16.update"
	sg := nd.Choice("signer", 3)
	nl := nd.Choice("nil", 6)
	dn := nd.Choice("denom", 2)
	e, was := govState()
	denom := []string{Denoms[0], Denoms[1]}[dn]
	msg := &types.MsgUpdateAlliance{
		Authority: signer(e, sg), Denom: denom,
		RewardWeight:         symDec("m_w", b2i(nl == 1)),
		TakeRate:             symDec("m_rate", b2i(nl == 2)),
		RewardChangeRate:     symDec("m_cr", b2i(nl == 3)),
		RewardChangeInterval: nd.DurRange("m_ci", -(1 << 62), 1<<62),
		RewardWeightRange:    types.RewardWeightRange{Min: symDec("m_min", b2i(nl == 4)), Max: symDec("m_max", b2i(nl == 5))},
	}
	ms := keeper.NewMsgServerImpl(e.K)
	var err error
	nd.Reach(id)
	panicked := Caught(func() { _, err = ms.UpdateAlliance(e.Ctx, msg) })
	if panicked || err != nil {
		return
	}
	nd.Assert(id+".gate", sg == 0)
	nd.Assert(id+".exists", dn == 0)
	a, found := e.K.GetAssetByDenom(e.Ctx, Denoms[0])
	nd.Assert(id+".pred", found && assetOK(a))
	nd.Assert(id+".frame", nd.And(a.TotalTokens.Equal(was.TotalTokens), a.TotalValidatorShares.Equal(was.TotalValidatorShares),
		a.Denom == was.Denom, a.RewardStartTime.Equal(was.RewardStartTime), boolEq(a.IsInitialized, was.IsInitialized)))
	_, found2 := e.K.GetAssetByDenom(e.Ctx, Denoms[1])
	nd.Assert(id+".nocreate", !found2)
}

// H_C16_delete: DeleteAlliance succeeds only for the authority and only while nothing is staked.
func H_C16_delete() {
	id := "C16.delete"
	sg := nd.Choice("signer", 3)
	dn := nd.Choice("denom", 3)
	e, was := govState()
	denom := []string{Denoms[0], Denoms[1], ""}[dn]
	ms := keeper.NewMsgServerImpl(e.K)
	var err error
	nd.Reach(id)
	panicked := Caught(func() {
		_, err = ms.DeleteAlliance(e.Ctx, &types.MsgDeleteAlliance{Authority: signer(e, sg), Denom: denom})
	})
	if panicked || err != nil {
		return
	}
	nd.Assert(id+".gate", sg == 0)
	nd.Assert(id+".exists", dn == 0)
	nd.Assert(id+".empty", was.TotalTokens.IsZero())
	_, found := e.K.GetAssetByDenom(e.Ctx, Denoms[0])
	nd.Assert(id+".gone", !found)
}

// H_C16_params: UpdateParams succeeds only for the authority.
func H_C16_params() {
	id := "C16.params"
	sg := nd.Choice("signer", 3)
	e, _ := govState()
	p := types.Params{RewardDelayTime: nd.DurRange("delay", -(1 << 62), 1<<62), TakeRateClaimInterval: nd.DurRange("iv", -(1 << 62), 1<<62),
		LastTakeRateClaimTime: nd.TimeRange("last", TLo, THi)}
	ms := keeper.NewMsgServerImpl(e.K)
	var err error
	nd.Reach(id)
	panicked := Caught(func() { _, err = ms.UpdateParams(e.Ctx, &types.MsgUpdateParams{Authority: signer(e, sg), Params: p}) })
	if panicked || err != nil {
		return
	}
	nd.Assert(id+".gate", sg == 0)
	got := e.K.GetParams(e.Ctx)
	nd.Assert(id+".stored", nd.And(got.RewardDelayTime == p.RewardDelayTime, got.TakeRateClaimInterval == p.TakeRateClaimInterval,
		got.RewardDelayTime >= 0, got.TakeRateClaimInterval >= 0))
}

// H_C16_legacy: the three legacy proposal contents go through the same validation: whatever
// the handler accepts leaves every stored asset valid, never re-creates an existing denom and
// deletes only empty assets.
func H_C16_legacy() {
	id := "C16.legacy"
	kind := nd.Choice("content", 3)
	nl := nd.Choice("nil", 6)
	e, was := govState()
	h := alliance.NewAllianceProposalHandler(e.K)
	rw := symDec("m_w", b2i(nl == 1))
	tr := symDec("m_rate", b2i(nl == 2))
	cr := symDec("m_cr", b2i(nl == 3))
	ci := nd.DurRange("m_ci", -(1 << 62), 1<<62)
	rg := types.RewardWeightRange{Min: symDec("m_min", b2i(nl == 4)), Max: symDec("m_max", b2i(nl == 5))}
	var err error
	nd.Reach(id)
	panicked := Caught(func() {
		switch kind {
		case 0:
			err = h(e.Ctx, &types.MsgCreateAllianceProposal{Title: "t", Description: "d", Denom: Denoms[1], RewardWeight: rw, TakeRate: tr, RewardChangeRate: cr, RewardChangeInterval: ci, RewardWeightRange: rg})
		case 1:
			err = h(e.Ctx, &types.MsgUpdateAllianceProposal{Title: "t", Description: "d", Denom: Denoms[0], RewardWeight: rw, TakeRate: tr, RewardChangeRate: cr, RewardChangeInterval: ci, RewardWeightRange: rg})
		case 2:
			err = h(e.Ctx, &types.MsgDeleteAllianceProposal{Title: "t", Description: "d", Denom: Denoms[0]})
		}
	})
	if panicked || err != nil {
		return
	}
	for _, a := range e.K.GetAllAssets(e.Ctx) {
		nd.Assert(id+".pred", assetOK(*a))
	}
	if kind == 2 {
		nd.Assert(id+".empty", was.TotalTokens.IsZero())
	}
	if kind == 1 {
		a, _ := e.K.GetAssetByDenom(e.Ctx, Denoms[0])
		nd.Assert(id+".frame", nd.And(a.TotalTokens.Equal(was.TotalTokens), a.TotalValidatorShares.Equal(was.TotalValidatorShares), a.RewardStartTime.Equal(was.RewardStartTime)))
	}
}

var _ = sdk.NewCoin
