package h

import (
	"time"

	"cosmossdk.io/math"
	sdk "github.com/cosmos/cosmos-sdk/types"
	stakingtypes "github.com/cosmos/cosmos-sdk/x/staking/types"

	"hv/env"
	"hv/nd"

	"github.com/terra-money/alliance/x/alliance/types"
)

// Pos identifies a delegation record of the universe.
type Pos struct {
	D, V, A int // indexes into Dels, Vals, Denoms
}

func (p Pos) name() string {
	return string(rune('0'+p.D)) + string(rune('0'+p.V)) + string(rune('0'+p.A))
}

// Opts selects what the representation invariant leaves symbolic.
type Opts struct {
	NVals         int    // validators registered in staking (default 2)
	NDenoms       int    // alliance assets created (default 1)
	MaxTok        string // upper bound of token quantities (default 10^30)
	Started       int    // 0: rewards started (start time <= block time); 1: not started; 2: symbolic
	TakeRate      bool   // symbolic take rate in [0,1) (else 0)
	Rewards       bool   // module has a staking delegation on every validator, pending rewards and reward indices are symbolic
	UnitPrice     bool   // validator-share and delegator-share prices fixed to 1 (keeps structural queries linear)
	Unbonding     int64  // staking unbonding time in ns (0 => symbolic 1s..10y)
	BlockTime     *time.Time
	ValPriceOne   bool // validator-share price 1 (TotalValidatorShares == TotalTokens) while delegator-share prices stay symbolic (halves the degree of value terms)
	Hints         bool // suggest a simple concrete regime (round share amounts, unit prices, small rewards) to the search for a concrete counterexample
	TinyTDS       bool // allow a validator's total delegator shares to be below one share (region of a known C05/C20 finding: shares are then priced 1:1)
	StrictRewards bool // pending distribution rewards are strictly positive and every position has a strictly positive index gap (fewer zero/non-zero forks)
	Val0Unbonding bool // validator 0 has left the active set (status Unbonding): x/staking still slashes it
	BigPool       bool // the rewards pool holds more than any entitlement (keeps pool-shortage forks out of harnesses that are not about solvency)
	History2      bool // reward histories exist for two reward denoms, in first-seen (non-alphabetical) order: stake, then aaaaa
	TwoRewards    bool // pending distribution rewards come in two denoms and the validators have no reward history yet
	DustVal       bool // validator 2 holds a remainder of validator shares of denom 0 but no delegation (it was fully exited)
	Params        bool // symbolic take-rate clock (interval, last claim time); else default params, clock = block time
}

// State is an arbitrary state satisfying the representation invariant RI (DESIGN.md §4):
// share sums hold by construction (totals are defined as the sums of their parts), all
// quantities are non-negative, custody covers staked totals.
type State struct {
	E       *env.Env
	Pos     []Pos
	T0      time.Time
	Shares  map[string]math.LegacyDec // delegation shares by Pos.name()
	Surplus []math.Int
	Params  types.Params
}

func posIn(ps []Pos, d, v, a int) bool {
	for _, p := range ps {
		if p.D == d && p.V == v && p.A == a {
			return true
		}
	}
	return false
}

// Build installs an arbitrary RI state with the given delegation records.
func Build(ps []Pos, o Opts) *State {
	if o.NVals == 0 {
		o.NVals = 2
	}
	if o.DustVal && o.NVals < 3 {
		o.NVals = 3
	}
	if o.NDenoms == 0 {
		o.NDenoms = 1
	}
	if o.MaxTok == "" {
		o.MaxTok = Pow30
	}
	var t0 time.Time
	if o.BlockTime != nil {
		t0 = *o.BlockTime
	} else {
		t0 = nd.TimeRange("t0", TLo, THi)
	}
	e := env.New(t0, 100)
	st := &State{E: e, Pos: ps, T0: t0, Shares: map[string]math.LegacyDec{}}
	if o.Unbonding != 0 {
		e.Stk.Unbonding = time.Duration(o.Unbonding)
	} else {
		e.Stk.Unbonding = nd.DurRange("unbonding", int64(time.Second), int64(10*365*24*time.Hour))
	}
	params := types.Params{RewardDelayTime: time.Hour, TakeRateClaimInterval: 5 * time.Minute, LastTakeRateClaimTime: t0}
	if o.Params {
		params.TakeRateClaimInterval = nd.DurRange("claim_iv", 1, int64(366*24*time.Hour))
		params.LastTakeRateClaimTime = nd.TimeRange("last_claim", TLo, THi)
		nd.Assume(!params.LastTakeRateClaimTime.After(t0))
	}
	if err := e.K.SetParams(e.Ctx, params); err != nil {
		panic(err)
	}
	st.Params = params
	// staking validators (bonded, native stake symbolic)
	for v := 0; v < o.NVals; v++ {
		n := string(rune('0' + v))
		tok := nd.IntRange("native_"+n, "1", Pow30)
		if o.Rewards {
			// the module already holds alliance-minted stake on the validator (exchange rate 1)
			m := nd.IntRange("modstake_"+n, "1", Pow30)
			NewValidator(e, Vals[v], valStatus(o, v), tok.Add(m), math.LegacyNewDecFromInt(tok.Add(m)))
			mod := e.Ak.GetModuleAddress(types.ModuleName)
			e.Stk.SetDelegationRaw(mod, Vals[v], stakingtypes.NewDelegation(mod.String(), Vals[v].String(), math.LegacyNewDecFromInt(m)))
			plo := "0"
			if o.StrictRewards {
				plo = "1"
			}
			pend := nd.IntRange("pend_"+n, plo, Pow30)
			if o.Hints {
				nd.Hint(pend.Equal(math.NewInt(1000)))
				nd.Hint(m.Equal(math.NewInt(500000)))
				nd.Hint(tok.Equal(math.NewInt(1000000)))
			}
			if !pend.IsZero() {
				coins := sdk.Coins{sdk.Coin{Denom: env.BondDenom, Amount: pend}}
				if o.TwoRewards {
					// sorted: "aaaaa" < "stake"
					coins = sdk.Coins{sdk.Coin{Denom: DustDenom, Amount: nd.IntRange("pend2_"+n, "1", Pow30)}, sdk.Coin{Denom: env.BondDenom, Amount: pend}}
				}
				e.Distr.Allocate(mod, Vals[v], coins)
			}
		} else {
			NewValidator(e, Vals[v], valStatus(o, v), tok, math.LegacyNewDecFromInt(tok))
		}
	}
	if o.Rewards {
		if o.BigPool {
			big, _ := math.NewIntFromString(Pow30 + Pow30 + "000000")
			e.Bank.Fund(e.Ak.GetModuleAddress(types.RewardsPoolName), env.BondDenom, big)
		} else {
			e.Bank.Fund(e.Ak.GetModuleAddress(types.RewardsPoolName), env.BondDenom, nd.IntRange("pool", "0", Pow30+"000000"))
		}
		if o.History2 {
			e.Bank.Fund(e.Ak.GetModuleAddress(types.RewardsPoolName), DustDenom, nd.IntRange("pool2", "0", Pow30+"000000"))
		}
	}
	maxShares := o.MaxTok + Pow18
	for a := 0; a < o.NDenoms; a++ {
		an := string(rune('0' + a))
		denom := Denoms[a]
		asset := types.AllianceAsset{
			Denom:                denom,
			RewardWeight:         nd.DecRange("w_"+an, "0.001", "10"),
			RewardWeightRange:    types.RewardWeightRange{Min: math.LegacyZeroDec(), Max: math.LegacyNewDec(10)},
			TakeRate:             math.LegacyZeroDec(),
			RewardChangeRate:     math.LegacyOneDec(),
			RewardChangeInterval: 0,
			IsInitialized:        true,
		}
		if o.TakeRate {
			asset.TakeRate = nd.DecRange("rate_"+an, "0", "0.999999999999999999")
		}
		switch o.Started {
		case 0:
			asset.RewardStartTime = t0.Add(-time.Hour)
		case 1:
			asset.RewardStartTime = t0.Add(time.Hour)
			asset.IsInitialized = false
		default:
			asset.RewardStartTime = nd.TimeRange("start_"+an, TLo, THi)
			asset.IsInitialized = !t0.Before(asset.RewardStartTime)
		}
		asset.LastRewardChangeTime = asset.RewardStartTime
		tvs := math.LegacyZeroDec()
		anyStake := false
		for v := 0; v < o.NVals; v++ {
			vn := string(rune('0' + v))
			tds := math.LegacyZeroDec()
			has := false
			for d := range Dels {
				if !posIn(ps, d, v, a) {
					continue
				}
				has = true
				p := Pos{d, v, a}
				var sh math.LegacyDec
				if o.UnitPrice {
					tk := nd.IntRange("tok_"+p.name(), "1", o.MaxTok)
					nd.Hint(tk.Equal(math.NewInt(int64(1000 * (1 + d + 2*v))))) // regime for concrete witnesses only
					sh = math.LegacyNewDecFromInt(tk)
				} else {
					sh = nd.DecRange("sh_"+p.name(), "0.000000000000000001", maxShares)
				}
				if o.Hints && !o.UnitPrice {
					nd.Hint(sh.Equal(math.LegacyNewDec(int64(100 * (1 + d + 2*v)))))
				}
				st.Shares[p.name()] = sh
				tds = tds.Add(sh)
			}
			if !has {
				continue
			}
			anyStake = true
			var vs math.LegacyDec
			if o.UnitPrice {
				vs = tds
			} else {
				vs = nd.DecRange("vs_"+vn+an, "0.000000000000000001", maxShares)
			}
			tvs = tvs.Add(vs)
			if o.Hints && !o.UnitPrice {
				nd.Hint(vs.Equal(tds))
			}
			if !o.UnitPrice {
				// bound (stated): delegator-share price of a validator within 10^-6 .. 10^6 validator shares
				nd.Assume(nd.And(tds.LTE(vs.MulInt64(1000000)), vs.LTE(tds.MulInt64(1000000))))
				if !o.TinyTDS {
					// bound (stated): a validator's delegator shares add up to at least one share
					nd.Assume(tds.GTE(math.LegacyOneDec()))
				}
			}
			info := types.NewAllianceValidatorInfo()
			if old, found := e.K.GetAllianceValidatorInfo(e.Ctx, Vals[v]); found {
				info = old
			}
			info.TotalDelegatorShares = sdk.DecCoins(info.TotalDelegatorShares).Add(sdk.NewDecCoinFromDec(denom, tds))
			info.ValidatorShares = sdk.DecCoins(info.ValidatorShares).Add(sdk.NewDecCoinFromDec(denom, vs))
			if o.Rewards && !o.TwoRewards {
				info.GlobalRewardHistory = append(info.GlobalRewardHistory, types.RewardHistory{
					Denom: env.BondDenom, Alliance: denom, Index: nd.DecRange("gidx_"+vn+an, "0", Pow12),
				})
				if o.History2 {
					info.GlobalRewardHistory = append(info.GlobalRewardHistory, types.RewardHistory{
						Denom: DustDenom, Alliance: denom, Index: nd.DecRange("gidx2_"+vn+an, "0", Pow12),
					})
				}
			}
			if err := e.K.SetValidatorInfo(e.Ctx, Vals[v], info); err != nil {
				panic(err)
			}
		}
		if o.DustVal && a == 0 && anyStake {
			// reachable (seeded change C03-reset-skips...): the last delegator left while the record kept shares worth < 0.01 token
			dust := nd.DecRange("dustvs", "0.000000000000000001", "0.009")
			nd.Hint(dust.Equal(math.LegacyNewDecWithPrec(5, 3))) // regime for concrete witnesses only
			tvs = tvs.Add(dust)
			info := types.NewAllianceValidatorInfo()
			info.ValidatorShares = sdk.NewDecCoins(sdk.NewDecCoinFromDec(denom, dust))
			if err := e.K.SetValidatorInfo(e.Ctx, Vals[2], info); err != nil {
				panic(err)
			}
		}
		asset.TotalValidatorShares = tvs
		if anyStake {
			if o.UnitPrice {
				asset.TotalTokens = tvs.TruncateInt()
			} else {
				asset.TotalTokens = nd.IntRange("T_"+an, "1", o.MaxTok)
				// bound (stated): validator-share price within 10^-6 .. 10^6 tokens
				td := math.LegacyNewDecFromInt(asset.TotalTokens)
				nd.Assume(nd.And(tvs.LTE(td.MulInt64(1000000)), td.LTE(tvs.MulInt64(1000000))))
				if o.Hints {
					nd.Hint(td.Equal(tvs))
				}
				if o.ValPriceOne {
					nd.Assume(td.Equal(tvs))
				}
			}
		} else {
			asset.TotalTokens = math.ZeroInt()
		}
		if err := e.K.SetAsset(e.Ctx, asset); err != nil {
			panic(err)
		}
		// custody: staked total + unsolicited surplus
		sur := nd.IntRange("surplus_"+an, "0", Pow30)
		st.Surplus = append(st.Surplus, sur)
		e.Bank.Fund(e.Ak.GetModuleAddress(types.ModuleName), denom, asset.TotalTokens.Add(sur))
	}
	// delegation records (written after the validators so histories can be copied)
	for _, p := range ps {
		info, _ := e.K.GetAllianceValidatorInfo(e.Ctx, Vals[p.V])
		d := types.Delegation{
			DelegatorAddress:      Dels[p.D].String(),
			ValidatorAddress:      Vals[p.V].String(),
			Denom:                 Denoms[p.A],
			Shares:                st.Shares[p.name()],
			LastRewardClaimHeight: 100,
		}
		for _, gh := range info.GlobalRewardHistory {
			if gh.Alliance != Denoms[p.A] {
				continue
			}
			h := gh
			if o.Rewards {
				h.Index = nd.DecRange("didx_"+gh.Denom[:1]+p.name(), "0", Pow12)
				if o.Hints {
					nd.Hint(h.Index.Equal(math.LegacyNewDec(1)))
					nd.Hint(gh.Index.Equal(math.LegacyNewDec(2)))
				}
				if o.StrictRewards {
					nd.Assume(h.Index.LT(gh.Index))
				} else {
					nd.Assume(h.Index.LTE(gh.Index))
				}
			}
			d.RewardHistory = append(d.RewardHistory, h)
		}
		if err := e.K.SetDelegation(e.Ctx, Dels[p.D], Vals[p.V], Denoms[p.A], d); err != nil {
			panic(err)
		}
	}
	// user balances
	for d := range Dels {
		for a := 0; a < o.NDenoms; a++ {
			e.Bank.Fund(Dels[d], Denoms[a], nd.IntRange("bal_"+string(rune('0'+d))+string(rune('0'+a)), "0", Pow30))
		}
	}
	return st
}

// ---- observations ----

// QueuedTotal sums all pending unbonding balances of denom (from the primary records).
func QueuedTotal(e *env.Env, denom string) math.Int {
	sum := math.ZeroInt()
	e.K.IterateUndelegations(e.Ctx, func(u types.QueuedUndelegation, _ time.Time) bool {
		for _, en := range u.Entries {
			if en.Balance.Denom == denom {
				sum = sum.Add(en.Balance.Amount)
			}
		}
		return false
	})
	return sum
}

// Surplus = custody balance - staked total - queued unbondings (C01's observable).
func Surplus(e *env.Env, denom string) math.Int {
	bal := e.Bank.Balance(e.Ak.GetModuleAddress(types.ModuleName), denom)
	asset, _ := e.K.GetAssetByDenom(e.Ctx, denom)
	staked := math.ZeroInt()
	if !asset.TotalTokens.IsNil() {
		staked = asset.TotalTokens
	}
	return bal.Sub(staked).Sub(QueuedTotal(e, denom))
}

func valStatus(o Opts, v int) stakingtypes.BondStatus {
	if o.Val0Unbonding && v == 0 {
		return stakingtypes.Unbonding
	}
	return stakingtypes.Bonded
}
