package h

import (
	"cosmossdk.io/math"
	sdk "github.com/cosmos/cosmos-sdk/types"

	"hv/env"
	"hv/nd"

	"github.com/terra-money/alliance/x/alliance/keeper"
	"github.com/terra-money/alliance/x/alliance/types"
)

// zeroSlash models the state after a 100% slash of validator v: its validator shares of the
// denom are gone while delegations and delegator shares remain (SlashValidator, f = 1).
func zeroSlash(e *env.Env, v, a int) {
	info, found := e.K.GetAllianceValidatorInfo(e.Ctx, Vals[v])
	if !found {
		return
	}
	asset, _ := e.K.GetAssetByDenom(e.Ctx, Denoms[a])
	cur := sdk.DecCoins(info.ValidatorShares).AmountOf(Denoms[a])
	var rest sdk.DecCoins
	for _, c := range info.ValidatorShares {
		if c.Denom != Denoms[a] {
			rest = append(rest, c)
		}
	}
	info.ValidatorShares = rest
	asset.TotalValidatorShares = asset.TotalValidatorShares.Sub(cur)
	_ = e.K.SetValidatorInfo(e.Ctx, Vals[v], info)
	_ = e.K.SetAsset(e.Ctx, asset)
}

// tagLiveness marks the regions of the known C05 findings on the current path.
func tagLiveness(e *env.Env, v int) {
	asset, _ := e.K.GetAssetByDenom(e.Ctx, Denoms[0])
	av := AV(e, Vals[v])
	vt := av.TotalTokensWithAsset(asset)
	if av.TotalDelegationSharesWithDenom(Denoms[0]).IsPositive() && vt.IsZero() {
		nd.Tag("zero-value-validator")
		return
	}
	// the validator's weighted share of the asset rounds to zero: AddAssetsToRewardPool divides by it
	if asset.TotalTokens.IsZero() || vt.IsZero() {
		return // nothing staked (there): reward settlement skips the asset
	}
	if asset.RewardWeight.Mul(vt).QuoInt(asset.TotalTokens).IsZero() {
		nd.Tag("zero-staked-reward-weight")
	}
}

// tagPoolShort2: the same for the second reward denomination.
func tagPoolShort2(e *env.Env, d, v int) {
	asset, _ := e.K.GetAssetByDenom(e.Ctx, Denoms[0])
	del, found := e.K.GetDelegation(e.Ctx, Dels[d], Vals[v], Denoms[0])
	if !found {
		return
	}
	var coins sdk.Coins
	var err error
	if Caught(func() { coins, _, err = e.K.CalculateDelegationRewards(e.Ctx, del, AV(e, Vals[v]), asset) }) || err != nil {
		return // judged by the claim itself
	}
	if e.Bank.Balance(e.Ak.GetModuleAddress(types.RewardsPoolName), DustDenom).LT(coins.AmountOf(DustDenom)) {
		nd.Tag("reward-pool-short")
	}
}

func tagPoolShort(e *env.Env, d, v int) {
	asset, _ := e.K.GetAssetByDenom(e.Ctx, Denoms[0])
	del, found := e.K.GetDelegation(e.Ctx, Dels[d], Vals[v], Denoms[0])
	if !found {
		return
	}
	b := e.Branch()
	var coins sdk.Coins
	var err error
	// region of a known finding: settling the VALIDATOR's pending rewards panics (division by a zero
	// staked reward weight / zero token value in AddAssetsToRewardPool). Only that call defines the
	// region; a panic while computing the delegation's own rewards is judged by the claim itself.
	if Caught(func() { _, err = b.K.ClaimValidatorRewards(b.Ctx, AV(b, Vals[v])) }) {
		nd.Tag("reward-settlement-panics")
		return
	}
	if err != nil {
		return
	}
	if Caught(func() { coins, _, err = b.K.CalculateDelegationRewards(b.Ctx, del, AV(b, Vals[v]), asset) }) || err != nil {
		return
	}
	pool := b.Bank.Balance(b.Ak.GetModuleAddress(types.RewardsPoolName), env.BondDenom)
	if pool.LT(coins.AmountOf(env.BondDenom)) {
		nd.Tag("reward-pool-short")
	}
}

// H_C05_delegate: a user holding the coins can delegate 1 unit or a large amount to any
// validator of any RI state (incl. a validator slashed by 100%) without error or panic.
func H_C05_delegate() {
	id := "C05.step.delegate"
	ps := shape3("shape")
	slashed := nd.Choice("slashed100", 2)
	st := Build(ps, Opts{Rewards: true})
	e := st.E
	if slashed == 1 {
		zeroSlash(e, 0, 0)
	}
	amt := nd.IntRange("amt", "1", Pow30)
	nd.Assume(bal(e, 0, 0).GTE(amt))
	tagLiveness(e, 0)
	tagPoolShort(e, 0, 0)
	ms := keeper.NewMsgServerImpl(e.K)
	var err error
	nd.Reach(id)
	NoPanic(id, func() {
		_, err = ms.Delegate(e.Ctx, &types.MsgDelegate{DelegatorAddress: Dels[0].String(), ValidatorAddress: Vals[0].String(), Amount: sdk.NewCoin(Denoms[0], amt)})
	})
	ErrNote(err)
	nd.Assert(id, err == nil)
}

// H_C05_claim: every existing position can claim without error or panic.
func H_C05_claim() {
	id := "C05.step.claim"
	ps := shapeActor("shape")
	slashed := nd.Choice("slashed100", 3) // 2: instead, rewards accrued in two denominations (first-seen order stake, aaaaa)
	st := Build(ps, Opts{Rewards: true, History2: slashed == 2})
	e := st.E
	if slashed == 1 {
		zeroSlash(e, 0, 0)
	}
	tagLiveness(e, 0)
	tagPoolShort(e, 0, 0)
	if slashed == 2 {
		tagPoolShort2(e, 0, 0)
	}
	ms := keeper.NewMsgServerImpl(e.K)
	var err error
	nd.Reach(id)
	NoPanic(id, func() {
		_, err = ms.ClaimDelegationRewards(e.Ctx, &types.MsgClaimDelegationRewards{DelegatorAddress: Dels[0].String(), ValidatorAddress: Vals[0].String(), Denom: Denoms[0]})
	})
	ErrNote(err)
	nd.Assert(id, err == nil)
}

// H_C05_exit: every delegator with a positive reported balance can undelegate that full balance.
func H_C05_exit() {
	id := "C05.step.exit"
	if !nd.Thorough() {
		return // quick tier: the ideal-Q variant H_C05_exit_Q decides the exit obligation
	}
	ps := shapeActor("shape")
	st := Build(ps, Opts{Rewards: true})
	e := st.E
	asset, _ := e.K.GetAssetByDenom(e.Ctx, Denoms[0])
	del, _ := e.K.GetDelegation(e.Ctx, Dels[0], Vals[0], Denoms[0])
	balance := types.GetDelegationTokens(del, AV(e, Vals[0]), asset).Amount
	nd.Assume(balance.GT(math.ZeroInt()))
	// region of a known finding: the reported balance is the value rounded UP by the 0.01 epsilon
	av0 := AV(e, Vals[0])
	exact := types.ConvertNewShareToDecToken(av0.TotalTokensWithAsset(asset), av0.TotalDelegationSharesWithDenom(Denoms[0]), del.Shares)
	if math.LegacyNewDecFromInt(balance).GT(exact) {
		nd.Tag("balance-rounded-up")
	}
	if av0.TotalDelegationSharesWithDenom(Denoms[0]).TruncateInt().IsZero() {
		nd.Tag("tds-below-one") // GetDelegationSharesFromTokens prices shares 1:1 when the validator's delegator shares truncate to zero
	}
	tagLiveness(e, 0)
	tagPoolShort(e, 0, 0)
	hintUnitPrices(st)
	ms := keeper.NewMsgServerImpl(e.K)
	var err error
	nd.Reach(id)
	NoPanic(id, func() {
		_, err = ms.Undelegate(e.Ctx, &types.MsgUndelegate{DelegatorAddress: Dels[0].String(), ValidatorAddress: Vals[0].String(), Amount: sdk.NewCoin(Denoms[0], balance)})
	})
	ErrNote(err)
	nd.Assert(id, err == nil)
}
