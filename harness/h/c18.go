package h

import (
	"time"

	"cosmossdk.io/math"
	sdk "github.com/cosmos/cosmos-sdk/types"

	"hv/env"
	"hv/nd"

	"github.com/terra-money/alliance/x/alliance/types"
)

func coinEq(a, b sdk.Coin) bool { return nd.And(a.Denom == b.Denom, a.Amount.Equal(b.Amount)) }

func decCoinsEq(a, b sdk.DecCoins) bool {
	if len(a) != len(b) {
		return false
	}
	r := true
	for i := range a {
		r = nd.And(r, a[i].Denom == b[i].Denom, a[i].Amount.Equal(b[i].Amount))
	}
	return r
}

// genesisEq compares two exports field by field.
func genesisEq(id string, g1, g2 *types.GenesisState) {
	nd.Assert(id+".params", nd.And(g1.Params.RewardDelayTime == g2.Params.RewardDelayTime, g1.Params.TakeRateClaimInterval == g2.Params.TakeRateClaimInterval,
		g1.Params.LastTakeRateClaimTime.Equal(g2.Params.LastTakeRateClaimTime)))
	nd.Assert(id+".len", len(g1.Assets) == len(g2.Assets) && len(g1.ValidatorInfos) == len(g2.ValidatorInfos) && len(g1.Delegations) == len(g2.Delegations) &&
		len(g1.Redelegations) == len(g2.Redelegations) && len(g1.Undelegations) == len(g2.Undelegations) && len(g1.RewardWeightChangeSnaphots) == len(g2.RewardWeightChangeSnaphots))
	for i := range g1.Assets {
		if i >= len(g2.Assets) {
			break
		}
		a, b := g1.Assets[i], g2.Assets[i]
		nd.Assert(id+".asset", nd.And(a.Denom == b.Denom, a.RewardWeight.Equal(b.RewardWeight), a.TakeRate.Equal(b.TakeRate), a.TotalTokens.Equal(b.TotalTokens),
			a.TotalValidatorShares.Equal(b.TotalValidatorShares), a.RewardStartTime.Equal(b.RewardStartTime), a.RewardChangeRate.Equal(b.RewardChangeRate),
			a.RewardChangeInterval == b.RewardChangeInterval, a.LastRewardChangeTime.Equal(b.LastRewardChangeTime),
			a.RewardWeightRange.Min.Equal(b.RewardWeightRange.Min), a.RewardWeightRange.Max.Equal(b.RewardWeightRange.Max), boolEq(a.IsInitialized, b.IsInitialized)))
	}
	for i := range g1.ValidatorInfos {
		if i >= len(g2.ValidatorInfos) {
			break
		}
		a, b := g1.ValidatorInfos[i], g2.ValidatorInfos[i]
		nd.Assert(id+".validator", nd.And(a.ValidatorAddress == b.ValidatorAddress, decCoinsEq(a.Validator.TotalDelegatorShares, b.Validator.TotalDelegatorShares),
			decCoinsEq(a.Validator.ValidatorShares, b.Validator.ValidatorShares), histEqual(a.Validator.GlobalRewardHistory, b.Validator.GlobalRewardHistory)))
	}
	for i := range g1.Delegations {
		if i >= len(g2.Delegations) {
			break
		}
		a, b := g1.Delegations[i], g2.Delegations[i]
		nd.Assert(id+".delegation", nd.And(a.DelegatorAddress == b.DelegatorAddress, a.ValidatorAddress == b.ValidatorAddress, a.Denom == b.Denom,
			a.Shares.Equal(b.Shares), a.LastRewardClaimHeight == b.LastRewardClaimHeight, histEqual(a.RewardHistory, b.RewardHistory)))
	}
	for i := range g1.Redelegations {
		if i >= len(g2.Redelegations) {
			break
		}
		a, b := g1.Redelegations[i], g2.Redelegations[i]
		nd.Assert(id+".redelegation", nd.And(a.CompletionTime.Equal(b.CompletionTime), a.Redelegation.DelegatorAddress == b.Redelegation.DelegatorAddress,
			a.Redelegation.SrcValidatorAddress == b.Redelegation.SrcValidatorAddress, a.Redelegation.DstValidatorAddress == b.Redelegation.DstValidatorAddress,
			coinEq(a.Redelegation.Balance, b.Redelegation.Balance)))
	}
	for i := range g1.Undelegations {
		if i >= len(g2.Undelegations) {
			break
		}
		a, b := g1.Undelegations[i], g2.Undelegations[i]
		nd.Assert(id+".undelegation", nd.And(a.CompletionTime.Equal(b.CompletionTime), len(a.Undelegation.Entries) == len(b.Undelegation.Entries)))
		for j := range a.Undelegation.Entries {
			if j >= len(b.Undelegation.Entries) {
				break
			}
			x, y := a.Undelegation.Entries[j], b.Undelegation.Entries[j]
			nd.Assert(id+".undelegation", nd.And(x.DelegatorAddress == y.DelegatorAddress, x.ValidatorAddress == y.ValidatorAddress, coinEq(x.Balance, y.Balance)))
		}
	}
	for i := range g1.RewardWeightChangeSnaphots {
		if i >= len(g2.RewardWeightChangeSnaphots) {
			break
		}
		a, b := g1.RewardWeightChangeSnaphots[i], g2.RewardWeightChangeSnaphots[i]
		nd.Assert(id+".snapshot", nd.And(a.Height == b.Height, a.Validator == b.Validator, a.Denom == b.Denom,
			a.Snapshot.PrevRewardWeight.Equal(b.Snapshot.PrevRewardWeight), histEqual(a.Snapshot.RewardHistories, b.Snapshot.RewardHistories)))
	}
}

// genesisState: delegations, a mixed unbonding bucket, pending redelegations (optionally a
// merged fan-in record) and a weight-change snapshot.
// decay: asset 0 carries a reward-weight decay schedule (symbolic rate, interval and a decay clock
// anywhere up to the block time, i.e. the export happens partway through an interval).
func genesisState(k int, decay bool) *State {
	// share prices 1 and no live reward machinery: export/import only copies the numbers, and the
	// continuation steps stay in linear arithmetic; reward histories are installed as opaque data
	st := Build([]Pos{{0, 0, 0}, {0, 1, 0}, {1, 1, 0}, {1, 0, 1}}, Opts{NVals: 3, NDenoms: 2, UnitPrice: true, Params: true})
	e := st.E
	if decay {
		a, _ := e.K.GetAssetByDenom(e.Ctx, Denoms[0])
		a.RewardChangeRate = nd.DecRange("crate", "0.000000000000000001", "2")
		a.RewardChangeInterval = nd.DurRange("civ", 1, int64(366*24*time.Hour))
		a.LastRewardChangeTime = nd.TimeRange("clast", TLo, THi)
		nd.Assume(!a.LastRewardChangeTime.After(st.T0))
		_ = e.K.SetAsset(e.Ctx, a)
	}
	for v := 0; v < 2; v++ {
		info, _ := e.K.GetAllianceValidatorInfo(e.Ctx, Vals[v])
		info.GlobalRewardHistory = []types.RewardHistory{{Denom: env.BondDenom, Alliance: Denoms[0], Index: nd.DecRange("gidx_"+string(rune('0'+v)), "0", Pow12)}}
		_ = e.K.SetValidatorInfo(e.Ctx, Vals[v], info)
	}
	c1 := nd.TimeRange("c1", TLo, THi)
	nd.Assume(!c1.Before(st.T0)) // an entry completing exactly at the block time is still pending (exclusive end bound)
	// one shared bucket: entries of two validators and two denoms of the same validator
	q1, q2, q3 := nd.IntRange("q1", "1", Pow30), nd.IntRange("q2", "1", Pow30), nd.IntRange("q3", "1", Pow30)
	InstallUnbonding(e, 0, c1, []Entry{{0, 0, q1}, {1, 0, q2}, {0, 1, q3}})
	// regime for concrete witnesses only (the continuation's slash multiplies these)
	nd.Hint(nd.And(q1.Equal(math.NewInt(1000)), q2.Equal(math.NewInt(2000)), q3.Equal(math.NewInt(3000))))
	rc := nd.TimeRange("rc1", TLo, THi)
	nd.Assume(!rc.Before(st.T0))
	InstallRedelegation(e, 0, 0, 1, 0, nd.IntRange("r1", "1", Pow30), rc)
	// a second delegator's redelegation of the same block: same queue slot, its own record
	InstallRedelegation(e, 1, 0, 1, 0, nd.IntRange("r3", "1", Pow30), rc)
	if k == 1 {
		InstallRedelegation(e, 0, 2, 1, 0, nd.IntRange("r2", "1", Pow30), rc)
		nd.Tag("merged-redelegation")
	}
	snap := types.RewardWeightChangeSnapshot{PrevRewardWeight: nd.DecRange("snapw", "0", "10"),
		RewardHistories: []types.RewardHistory{{Denom: env.BondDenom, Alliance: Denoms[0], Index: nd.DecRange("snapidx", "0", Pow12)}}}
	_ = e.Store.Set(types.GetRewardWeightChangeSnapshotKey(Denoms[0], Vals[0], 90), e.Codec().MustMarshal(&snap))
	return st
}

func reimport(e *env.Env, g *types.GenesisState) *env.Env {
	n := e.Branch()
	n.Store.Items = nil
	n.K.InitGenesis(n.Ctx, g)
	return n
}

// H_C18_export2: export -> import into an empty module store -> export gives the same genesis.
func H_C18_export2() {
	id := "C18.export2"
	k := nd.Choice("merged", 2)
	st := genesisState(k, nd.Choice("decay", 2) == 1)
	e := st.E
	var g1, g2 *types.GenesisState
	nd.Reach(id)
	if !NoPanic(id, func() {
		g1 = e.K.ExportGenesis(e.Ctx)
		g2 = reimport(e, g1).K.ExportGenesis(e.Ctx)
	}) {
		return
	}
	genesisEq(id, g1, g2)
}

// H_C18_cont: one continuation step (end-of-block at a later time, or a slash of any
// validator) run in lock-step on the original and on the re-imported state produces the same
// result, the same balances and the same export.
func H_C18_cont() {
	id := "C18.cont"
	k := nd.Choice("merged", 2)
	op := nd.Choice("op", 4)
	st := genesisState(k, false)
	e1 := st.E
	var e2 *env.Env
	if !NoPanic(id, func() { e2 = reimport(e1, e1.K.ExportGenesis(e1.Ctx)) }) {
		return
	}
	e1.K.ConsumeAssetRebalanceEvent(e1.Ctx)
	e2.K.ConsumeAssetRebalanceEvent(e2.Ctx)
	var f math.LegacyDec
	var t1 time.Time
	if op == 0 {
		t1 = nd.TimeRange("t1", TLo, THi)
		nd.Assume(!t1.Before(st.T0))
		boundIntervals(st, t1, 2)
	} else {
		f = nd.DecRange("fraction", "0.000000000000000001", "1")
		nd.Hint(f.Equal(math.LegacyNewDecWithPrec(5, 1)))
	}
	run := func(e *env.Env) (err error, panicked bool) {
		panicked = Caught(func() {
			if op == 0 {
				e.WithBlock(t1, 101)
				err = endBlock(e)
			} else {
				err = e.K.StakingHooks().BeforeValidatorSlashed(e.Ctx, Vals[op-1], f)
			}
		})
		return
	}
	err1, p1 := run(e1)
	err2, p2 := run(e2)
	nd.Reach(id)
	nd.Assert(id+".result", p1 == p2 && (err1 == nil) == (err2 == nil))
	if p1 || p2 || err1 != nil || err2 != nil {
		return
	}
	genesisEq(id, e1.K.ExportGenesis(e1.Ctx), e2.K.ExportGenesis(e2.Ctx))
	for d := range Dels {
		nd.Assert(id+".balances", nd.And(e1.Bank.Balance(Dels[d], Denoms[0]).Equal(e2.Bank.Balance(Dels[d], Denoms[0])), stakeBal(e1, d).Equal(stakeBal(e2, d))))
	}
	fee := e1.Ak.GetModuleAddress("fee_collector")
	nd.Assert(id+".balances", nd.And(e1.Bank.Balance(fee, Denoms[0]).Equal(e2.Bank.Balance(fee, Denoms[0])), moduleBal(e1, Denoms[0]).Equal(moduleBal(e2, Denoms[0]))))
}
