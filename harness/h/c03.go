package h

import (
	"cosmossdk.io/math"
	sdk "github.com/cosmos/cosmos-sdk/types"

	"hv/env"
	"hv/nd"

	"github.com/terra-money/alliance/x/alliance/types"
)

// Ledger is an independent recomputation of the share ledger from the primary records.
type Ledger struct {
	DelSum map[string]math.LegacyDec // validator|denom -> sum of delegation shares
	TDS    map[string]math.LegacyDec // validator|denom -> recorded TotalDelegatorShares
	VS     map[string]math.LegacyDec // validator|denom -> recorded ValidatorShares
	VSSum  map[string]math.LegacyDec // denom -> sum over validators
	TVS    map[string]math.LegacyDec // denom -> recorded TotalValidatorShares
	Tok    map[string]math.Int
	Keys   []string
	Denoms []string
}

func ReadLedger(e *env.Env) *Ledger {
	l := &Ledger{DelSum: map[string]math.LegacyDec{}, TDS: map[string]math.LegacyDec{}, VS: map[string]math.LegacyDec{},
		VSSum: map[string]math.LegacyDec{}, TVS: map[string]math.LegacyDec{}, Tok: map[string]math.Int{}}
	note := func(k string) {
		for _, x := range l.Keys {
			if x == k {
				return
			}
		}
		l.Keys = append(l.Keys, k)
		l.DelSum[k], l.TDS[k], l.VS[k] = math.LegacyZeroDec(), math.LegacyZeroDec(), math.LegacyZeroDec()
	}
	for _, a := range e.K.GetAllAssets(e.Ctx) {
		l.Denoms = append(l.Denoms, a.Denom)
		l.TVS[a.Denom] = a.TotalValidatorShares
		l.Tok[a.Denom] = a.TotalTokens
		l.VSSum[a.Denom] = math.LegacyZeroDec()
	}
	_ = e.K.IterateAllianceValidatorInfo(e.Ctx, func(v sdk.ValAddress, info types.AllianceValidatorInfo) bool {
		for _, c := range info.TotalDelegatorShares {
			k := v.String() + "|" + c.Denom
			note(k)
			l.TDS[k] = c.Amount
		}
		for _, c := range info.ValidatorShares {
			k := v.String() + "|" + c.Denom
			note(k)
			l.VS[k] = c.Amount
			if _, ok := l.VSSum[c.Denom]; !ok {
				l.VSSum[c.Denom] = math.LegacyZeroDec()
				l.Denoms = append(l.Denoms, c.Denom)
				l.TVS[c.Denom] = math.LegacyZeroDec()
			}
			l.VSSum[c.Denom] = l.VSSum[c.Denom].Add(c.Amount)
		}
		return false
	})
	_ = e.K.IterateDelegations(e.Ctx, func(d types.Delegation) bool {
		k := d.ValidatorAddress + "|" + d.Denom
		note(k)
		l.DelSum[k] = l.DelSum[k].Add(d.Shares)
		return false
	})
	return l
}

// AssertLedger asserts the three parts of C03 separately.
func (l *Ledger) Assert(id string) {
	zero := math.LegacyZeroDec()
	for _, k := range l.Keys {
		nd.Assert(id+".delsum", l.DelSum[k].Equal(l.TDS[k]))
		nd.Assert(id+".nonneg", nd.And(l.TDS[k].GTE(zero), l.VS[k].GTE(zero), l.DelSum[k].GTE(zero)))
	}
	for _, d := range l.Denoms {
		// reset: no staked tokens => no validator shares of that denom anywhere. Asserted BEFORE the
		// sum: the engine continues under the assumption that a decided assertion holds, and the paths
		// on which the total returns to zero lie inside the region of the known `.valsum` finding.
		if !l.Tok[d].IsNil() {
			nd.Assert(id+".reset", nd.Implies(l.Tok[d].IsZero(), nd.And(l.TVS[d].IsZero(), l.VSSum[d].IsZero())))
		}
		nd.Assert(id+".valsum", l.VSSum[d].Equal(l.TVS[d]))
		nd.Assert(id+".nonneg", l.TVS[d].GTE(zero))
	}
}

func c03Step(id string, op Op, ps []Pos, o Opts, pending bool) {
	pk := 0
	if pending {
		pk = nd.Choice("pending", 3)
	}
	st := Build(ps, o)
	pendingUnbondings(st, pk)
	e := st.E
	hintUnitPrices(st)
	preAsset, _ := e.K.GetAssetByDenom(e.Ctx, Denoms[0])
	preVS := AV(e, Vals[0]).ValidatorSharesWithDenom(Denoms[0])
	if !RunOp(st, op, id, false) {
		return
	}
	if op == OpUndelegate || op == OpRedelegate {
		// region of the known finding: the requested amount is worth more validator shares
		// than the validator holds (rounding), so the validator record is clamped
		amt := nd.IntRange("amt", "1", Pow30)
		vsr := types.GetValidatorShares(preAsset, amt)
		if vsr.GT(preVS) {
			nd.Tag("valshare-clamp")
		} else {
			// second dust path: the validator keeps shares worth zero tokens, ClearDustDelegation
			// removes them from the validator record only
			rest := preVS.Sub(vsr)
			at := preAsset
			if op == OpUndelegate {
				at.TotalTokens = preAsset.TotalTokens.Sub(amt)
				at.TotalValidatorShares = preAsset.TotalValidatorShares.Sub(vsr)
			}
			if rest.IsPositive() && !at.TotalTokens.IsZero() &&
				types.ConvertNewShareToDecToken(math.LegacyNewDecFromInt(at.TotalTokens), at.TotalValidatorShares, rest).IsZero() {
				nd.Tag("valshare-dustclear")
			}
		}
	}
	nd.Reach(id)
	ReadLedger(e).Assert(id)
}

// C03: the share ledger (delegator sums, validator sums, non-negativity, reset at zero) is
// re-established by every successful operation from any RI state (RI has the sums by construction).
func H_C03_step_delegate() { c03Step("C03.step.delegate", OpDelegate, shape3("shape"), Opts{}, false) }
func H_C03_step_undelegate() {
	c03Step("C03.step.undelegate", OpUndelegate, shapeActor("shape"), Opts{}, false)
}

// H_C03_step_exit_dustval: the last staker leaves (staked total returns to zero) while another
// validator still holds a dust remainder of validator shares and no delegation: the reset must
// clear every validator's record of the asset.
func H_C03_step_exit_dustval() {
	c03Step("C03.step.exit_dustval", OpUndelegate, []Pos{{0, 0, 0}}, Opts{DustVal: true}, false)
}
func H_C03_step_redelegate() {
	c03Step("C03.step.redelegate", OpRedelegate, shapeActor("shape"), Opts{}, false)
}
func H_C03_step_claim() {
	c03Step("C03.step.claim", OpClaim, shapeActor("shape"), Opts{Rewards: true}, false)
}
func H_C03_step_slash() { c03Step("C03.step.slash", OpSlash, shapeActor("shape"), Opts{}, true) }

// H_C03_step_slash_redel: the source validator of a pending redelegation is slashed; the slash of the
// redelegated stake edits the destination delegation and the destination validator's delegator-share
// total together (including the branch where the destination position shrank below the slash amount).
func H_C03_step_slash_redel() {
	id := "C03.step.slash_redel"
	st := Build([]Pos{{0, 0, 0}, {0, 1, 0}, {1, 1, 0}}, Opts{})
	e := st.E
	InstallRedelegation(e, 0, 0, 1, 0, nd.IntRange("r1", "1", Pow30), nd.TimeRange("c1", TLo, THi))
	f := nd.DecRange("fraction", "0.000000000000000001", "1")
	var err error
	if Caught(func() { err = e.K.StakingHooks().BeforeValidatorSlashed(e.Ctx, Vals[0], f) }) || err != nil {
		return // totality is C08's subject
	}
	nd.Reach(id)
	ReadLedger(e).Assert(id)
}

// hintUnitPrices: regime used when a concrete counterexample is searched - 1000 tokens
// staked at validator-share price 1, delegator-share price 1 on the actor's validator.
func hintUnitPrices(st *State) {
	e := st.E
	a, ok := e.K.GetAssetByDenom(e.Ctx, Denoms[0])
	if !ok || a.TotalTokens.IsNil() {
		return
	}
	nd.Hint(a.TotalTokens.Equal(math.NewInt(1000)))
	nd.Hint(a.TotalValidatorShares.Equal(math.LegacyNewDec(1000)))
	if info, found := e.K.GetAllianceValidatorInfo(e.Ctx, Vals[0]); found {
		nd.Hint(sdk.DecCoins(info.TotalDelegatorShares).AmountOf(Denoms[0]).Equal(sdk.DecCoins(info.ValidatorShares).AmountOf(Denoms[0])))
	}
}
