package h

import (
	"cosmossdk.io/math"
	sdk "github.com/cosmos/cosmos-sdk/types"
	stakingtypes "github.com/cosmos/cosmos-sdk/x/staking/types"

	"hv/env"
	"hv/nd"

	"github.com/terra-money/alliance/x/alliance/types"
)

// allianceBonded: the module's own stake on bonded validators. The staking model keeps every
// validator at exchange rate 1, so this is the sum of the module's delegation shares (linear).
func allianceBonded(e *env.Env) math.Int {
	mod := e.Ak.GetModuleAddress(types.ModuleName)
	sum := math.LegacyZeroDec()
	for v := range Vals {
		val, err := e.Stk.GetValidator(e.Ctx, Vals[v])
		if err != nil || !val.IsBonded() {
			continue
		}
		if d, err := e.Stk.GetDelegation(e.Ctx, mod, Vals[v]); err == nil {
			sum = sum.Add(d.Shares)
		}
	}
	return sum.TruncateInt()
}

// H_C11_net: rebalancing (mint+delegate / unbond+burn) and the end-of-block burn leave the
// staking-denom supply net of the module's own stake unchanged; afterwards the module account
// holds no staking-denom coins, and no other account's staking-denom balance moved.
func H_C11_net() {
	id := "C11.net"
	third := nd.Choice("third", 2)
	curK := nd.Choice("current", 3)
	second := 2 * nd.Choice("second", 2) // 0: one asset, 2: a second asset in warm-up
	if nd.Thorough() {
		second = nd.Choice("second3", 3)
	}
	stray := nd.Choice("stray", 2) // staking-denom coins sitting in the module account (e.g. auto-withdrawn rewards)
	slashedNext = nd.Choice("slashed", 2) == 1 && curK != 0
	s := buildReb(third, curK, second)
	e := s.E
	mod := e.Ak.GetModuleAddress(types.ModuleName)
	if stray == 1 {
		e.Bank.Fund(mod, env.BondDenom, nd.IntRange("stray", "1", Pow12))
	}
	if nd.Choice("pending", 2) == 1 {
		// staking rewards of the module's own delegations still pending in x/distribution: they must end
		// up in the rewards pool, never in the module account (where the end-of-block sweep burns them)
		a0, _ := e.K.GetAssetByDenom(e.Ctx, Denoms[0])
		for v := 0; v < 2; v++ {
			if s.Cur[v] > 0 {
				// bound (stated): the validator's staked reward weight of asset 0 is positive - with a zero
				// weight reward settlement divides by zero (the C05/C17 known finding, not C11's subject)
				vt := AV(e, Vals[v]).TotalTokensWithAsset(a0)
				nd.Assume(a0.RewardWeight.Mul(vt).QuoInt(a0.TotalTokens).IsPositive())
				e.Distr.Allocate(mod, Vals[v], sdk.Coins{sdk.Coin{Denom: env.BondDenom, Amount: nd.IntRange("pend_"+string(rune('0'+v)), "1", Pow12)}})
			}
		}
	}
	_ = e.K.QueueAssetRebalanceEvent(e.Ctx)
	// supply net of the module's own stake == supply - (bonded pool - native stake of bonded validators):
	// native stake is constant here, so the observable is supply - bonded pool (linear, exchange-rate independent)
	pool := func() math.Int {
		return e.Bank.Balance(e.Ak.GetModuleAddress(stakingtypes.BondedPoolName), env.BondDenom)
	}
	preNet := e.Bank.SupplyOf(env.BondDenom).Sub(pool()).Sub(e.Bank.Balance(mod, env.BondDenom))
	preUser := e.Bank.Balance(Dels[0], env.BondDenom)
	preNotBonded := e.Bank.Balance(e.Ak.GetModuleAddress(stakingtypes.NotBondedPoolName), env.BondDenom)
	var err error
	nd.Reach(id)
	if !NoPanic(id, func() { err = endBlock(e) }) {
		return
	}
	nd.Assert(id+".ok", err == nil)
	if err != nil {
		return
	}
	nd.Assert(id+".module", e.Bank.Balance(mod, env.BondDenom).IsZero())
	postNet := e.Bank.SupplyOf(env.BondDenom).Sub(pool())
	nd.Assert(id+".net", postNet.Equal(preNet))
	nd.Assert(id+".users", nd.And(e.Bank.Balance(Dels[0], env.BondDenom).Equal(preUser),
		e.Bank.Balance(e.Ak.GetModuleAddress(stakingtypes.NotBondedPoolName), env.BondDenom).Equal(preNotBonded)))
	// x/staking's module-account invariant: the bonded pool holds exactly the tokens of the bonded validators
	sumTok := math.ZeroInt()
	for u := 0; u < s.NVals; u++ {
		if val, err := e.Stk.GetValidator(e.Ctx, Vals[u]); err == nil && val.IsBonded() {
			sumTok = sumTok.Add(val.Tokens)
		}
	}
	nd.Assert(id+".pool", e.Bank.Balance(e.Ak.GetModuleAddress(stakingtypes.BondedPoolName), env.BondDenom).Equal(sumTok))
}
