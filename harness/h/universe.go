// Package h holds the harnesses: ordinary Go functions H_<property>_<obligation group>
// executed symbolically by symgo and natively for replay.
package h

import (
	"fmt"
	"os"
	"runtime/debug"
	"time"

	"cosmossdk.io/math"
	sdk "github.com/cosmos/cosmos-sdk/types"
	stakingtypes "github.com/cosmos/cosmos-sdk/x/staking/types"

	"hv/env"
	"hv/nd"

	"github.com/terra-money/alliance/x/alliance/types"
)

func addr(tag byte) []byte {
	b := make([]byte, 20)
	for i := range b {
		b[i] = tag
	}
	return b
}

// Universe (DESIGN.md §4): concrete identities, symbolic numbers.
var (
	Dels = []sdk.AccAddress{addr(0x01), addr(0x02)}
	Vals = []sdk.ValAddress{addr(0x11), addr(0x12), addr(0x13)}
	// alliance denoms have equal length (bound: byte comparisons never straddle a symbolic time)
	Denoms = []string{"alpha", "bravo"}
	// DustDenom sorts before every member of Denoms (asset iteration is in denom order)
	DustDenom = "aaaaa"
)

// DenomUniverse switches the two alliance denoms of the universe: 0 = equal length (default),
// 1 = the second denom ends with the first ("alpha" / "zalpha": suffix filters over index keys),
// 2 = the second denom starts with the first ("alpha" / "alphaz": prefix scans). Harnesses whose
// keys put nothing symbolic in front of the denom call it first with an nd.Choice.
func DenomUniverse(k int) {
	switch k {
	case 1:
		Denoms = []string{"alpha", "zalpha"}
	case 2:
		Denoms = []string{"alpha", "alphaz"}
	}
}

// Time window for block times: 2020-01-01 .. 2100-01-01 (Unix seconds).
const (
	TLo = int64(1577836800)
	THi = int64(4102444800)
)

const (
	Pow30 = "1000000000000000000000000000000"
	Pow18 = "1000000000000000000"
	Pow12 = "1000000000000"
)

// NoPanic runs f and reports (as obligation id) a panic that escapes it.
func NoPanic(id string, f func()) (ok bool) {
	defer func() {
		if r := recover(); r != nil {
			ok = false
			PanicNote(r)
			nd.Assert(id+".nopanic", false)
		}
	}()
	f()
	return true
}

// Caught runs f and returns whether it panicked (no obligation).
func Caught(f func()) (panicked bool) {
	defer func() {
		if r := recover(); r != nil {
			panicked = true
		}
	}()
	f()
	return false
}

// NewValidator registers a bonded validator with native stake in the staking model.
func NewValidator(e *env.Env, v sdk.ValAddress, status stakingtypes.BondStatus, tokens math.Int, shares math.LegacyDec) stakingtypes.Validator {
	val := stakingtypes.Validator{
		OperatorAddress:   v.String(),
		Status:            status,
		Tokens:            tokens,
		DelegatorShares:   shares,
		MinSelfDelegation: math.OneInt(),
	}
	e.Stk.AddValidator(val)
	pool := stakingtypes.NotBondedPoolName
	if status == stakingtypes.Bonded {
		pool = stakingtypes.BondedPoolName
	}
	e.Bank.Fund(e.Ak.GetModuleAddress(pool), env.BondDenom, tokens)
	return val
}

// AV loads the AllianceValidator for v through the real keeper.
func AV(e *env.Env, v sdk.ValAddress) types.AllianceValidator {
	av, err := e.K.GetAllianceValidator(e.Ctx, v)
	if err != nil {
		panic(err)
	}
	return av
}

var _ = time.Second

// ErrNote records the error text of a failed operation in the native replay output.
func ErrNote(err error) {
	if err != nil && !nd.Symbolic() {
		nd.Note(err.Error())
	}
}

func stakingDelegation(del sdk.AccAddress, val sdk.ValAddress, shares math.LegacyDec) stakingtypes.Delegation {
	return stakingtypes.NewDelegation(del.String(), val.String(), shares)
}

// PanicNote records the text of a recovered panic in the native replay output.
func PanicNote(r interface{}) {
	if !nd.Symbolic() {
		nd.Note("panic: " + fmt.Sprint(r))
		if os.Getenv("HV_STACK") != "" {
			os.Stderr.Write(debug.Stack())
		}
	}
}
