package h

import (
	"strconv"

	"cosmossdk.io/math"

	"hv/nd"
)

// H_C04_libcheck validates the translator's summaries of cosmossdk.io/math against the real
// library (DESIGN.md §6.1): the engine evaluates every operation below with its own
// term-level constant folding (the same code that builds the SMT terms), records the
// results as observables of the reach witness, and the native replay recomputes them with
// the real library; any difference is reported as an observable mismatch. Vectors: zero,
// units, 10^18 +- 1, exact half-way cases of the banker's rounding, negative values,
// large magnitudes, plus one solver-chosen symbolic triple.
func H_C04_libcheck() {
	id := "C04.libcheck"
	decs := []string{"0", "1", "-1", "0.000000000000000001", "0.5", "1.5", "2.5", "-2.5", "0.999999999999999999",
		"1.000000000000000001", "3.333333333333333333", "123456789.987654321", "1000000000000000000000000", "0.01", "0.000000000500000000"}
	ints := []int64{0, 1, -1, 2, 3, 7, 10, 1000000007}
	n := 0
	obs := func(v math.LegacyDec) {
		nd.ObserveDec("r"+strconv.Itoa(n), v)
		n++
	}
	obsI := func(v math.Int) {
		nd.ObserveInt("r"+strconv.Itoa(n), v)
		n++
	}
	for _, a := range decs {
		x := math.LegacyMustNewDecFromStr(a)
		obsI(x.TruncateInt())
		obsI(x.RoundInt())
		obs(x.TruncateDec())
		obs(x.Abs())
		obs(x.Neg())
		obs(x.Power(0))
		obs(x.Power(3))
		for _, b := range decs {
			y := math.LegacyMustNewDecFromStr(b)
			obs(x.Add(y))
			obs(x.Sub(y))
			obs(x.Mul(y))
			obs(x.MulTruncate(y))
			if !y.IsZero() {
				obs(x.Quo(y))
				obs(x.QuoTruncate(y))
			}
			nd.ObserveBool("c"+strconv.Itoa(n), x.LT(y))
			n++
		}
		for _, i := range ints {
			obs(x.MulInt(math.NewInt(i)))
			obs(x.MulInt64(i))
			if i != 0 {
				obs(x.QuoInt(math.NewInt(i)))
				obs(x.QuoInt64(i))
			}
		}
	}
	// half-way cases of the product and quotient rounding
	half := math.LegacyMustNewDecFromStr("0.000000000500000000")
	obs(half.Mul(math.LegacyMustNewDecFromStr("0.000000001")))                                         // 0.5e-18 -> banker's: 0
	obs(math.LegacyMustNewDecFromStr("0.0000000015").Mul(math.LegacyMustNewDecFromStr("0.000000001"))) // 1.5e-18 -> 2e-18
	obs(math.LegacyNewDec(1).Quo(math.LegacyNewDec(3)))
	obs(math.LegacyNewDec(2).Quo(math.LegacyNewDec(3)))
	obs(math.LegacyNewDec(-2).Quo(math.LegacyNewDec(3)))
	obs(math.LegacyNewDecWithPrec(15, 1).Power(7))
	obs(math.LegacyNewDecFromIntWithPrec(math.NewInt(12345), 4))
	// one symbolic triple: the solver's model is replayed natively as well
	a := nd.DecRange("la", "-1000000", "1000000")
	b := nd.DecRange("lb", "0.000001", "1000000")
	k := nd.IntRange("lk", "1", "1000000000")
	obs(a.Mul(b))
	obs(a.Quo(b))
	obs(a.MulInt(k).QuoInt(k))
	obsI(a.Mul(b).TruncateInt())
	obs(b.Power(5))
	nd.Reach(id)
	nd.Assert(id, a.Add(b).Sub(b).Equal(a))
}
