package h

import (
	"hv/env"
	"hv/nd"

	"github.com/terra-money/alliance/x/alliance"
	"github.com/terra-money/alliance/x/alliance/keeper"
	"github.com/terra-money/alliance/x/alliance/types"
)

// H_C17_params: every parameter set accepted by UpdateParams lets EndBlocker run (bmc(2)).
func H_C17_params() {
	t0 := nd.TimeRange("t0", TLo, THi)
	e := env.New(t0, 10)
	ms := keeper.NewMsgServerImpl(e.K)
	p := types.Params{
		RewardDelayTime:       nd.DurRange("delay", -(1 << 62), 1<<62),
		TakeRateClaimInterval: nd.DurRange("iv", -(1 << 62), 1<<62),
		LastTakeRateClaimTime: nd.TimeRange("last", TLo, THi),
	}
	_, err := ms.UpdateParams(e.Ctx, &types.MsgUpdateParams{Authority: e.Authority, Params: p})
	if err != nil {
		return
	}
	if p.TakeRateClaimInterval == 0 {
		nd.Tag("zero-claim-interval")
	}
	t1 := nd.TimeRange("t1", TLo, THi)
	nd.Assume(!t1.Before(t0))
	e.WithBlock(t1, 11)
	nd.Reach("C17.params")
	NoPanic("C17.params", func() { err = alliance.EndBlocker(e.Ctx, e.K) })
	nd.Assert("C17.params", err == nil)
}
