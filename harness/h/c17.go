package h

import (
	"time"

	"cosmossdk.io/math"

	"hv/env"
	"hv/nd"

	"github.com/terra-money/alliance/x/alliance"
	"github.com/terra-money/alliance/x/alliance/keeper"
	"github.com/terra-money/alliance/x/alliance/types"
)

// H_C17_params: every parameter set accepted by UpdateParams lets EndBlocker run (bmc(2)).
func H_C17_params() {
	t0 := nd.TimeRange("t0", TLo, THi)
	e := env.New(t0, 10)
	ms := keeper.NewMsgServerImpl(e.K)
	p := types.Params{
		RewardDelayTime:       nd.DurRange("delay", -(1 << 62), 1<<62),
		TakeRateClaimInterval: nd.DurRange("iv", -(1 << 62), 1<<62),
		LastTakeRateClaimTime: nd.TimeRange("last", TLo, THi),
	}
	_, err := ms.UpdateParams(e.Ctx, &types.MsgUpdateParams{Authority: e.Authority, Params: p})
	if err != nil {
		return
	}
	if p.TakeRateClaimInterval == 0 {
		nd.Tag("zero-claim-interval")
	}
	t1 := nd.TimeRange("t1", TLo, THi)
	nd.Assume(!t1.Before(t0))
	e.WithBlock(t1, 11)
	nd.Reach("C17.params")
	NoPanic("C17.params", func() { err = alliance.EndBlocker(e.Ctx, e.K) })
	nd.Assert("C17.params", err == nil)
}

// H_C17_state: from every RI state (take rate and take-rate clock symbolic, pending unbondings
// in several packings, a pending redelegation) the EndBlocker returns nil without panic at any
// later block time (take-rate exponent within the unrolling bound). The rebalancing and the
// weight-decay steps of EndBlocker are shown total by C10.consume / C10.target (.ok) and
// C14.decay (.ok) on their own state spaces; here share prices are 1 so that every branch of
// the remaining steps is decided by linear arithmetic.
func H_C17_state() {
	id := "C17.state"
	ps := shapeActor("shape")
	pk := nd.Choice("pending", 5)
	st := Build(ps, Opts{TakeRate: true, Params: true, UnitPrice: true})
	e := st.E
	pendingUnbondings(st, pk)
	InstallRedelegation(e, 1, 1, 0, 0, nd.IntRange("r1", "1", Pow30), nd.TimeRange("rc1", TLo, THi))
	t1 := nd.TimeRange("t1", TLo, THi)
	nd.Assume(!t1.Before(st.T0))
	boundIntervals(st, t1, 3)
	e.WithBlock(t1, 101)
	var err error
	nd.Reach(id)
	if !NoPanic(id, func() { err = alliance.EndBlocker(e.Ctx, e.K) }) {
		return
	}
	ErrNote(err)
	nd.Assert(id, err == nil)
}

// H_C17_decay_overflow: a reward change rate above one accepted by governance must not make the
// compounding overflow the fixed-point range (exact arithmetic, library overflow panics enabled).
func H_C17_decay_overflow_X() {
	id := "C17.decay"
	maxN := 2 // quick: up to 1 compounding step (n=2 alone costs 210 s); thorough: 8
	if nd.Thorough() {
		maxN = 9
	}
	n := nd.Choice("n", maxN) // leading choice: one task per step count
	nd.Overflow(true)
	rate := nd.DecRange("crate", "0.000000000000000001", "1000000")
	if rate.GT(math.LegacyOneDec()) {
		nd.Tag("growth-rate")
	}
	e, t0, a := decayState(rate, false, false)
	t1 := t0.Add(time.Duration(n) * time.Hour)
	e.WithBlock(t1, 101)
	_ = a
	var err error
	nd.Reach(id)
	if !NoPanic(id, func() { err = alliance.EndBlocker(e.Ctx, e.K) }) {
		return
	}
	nd.Assert(id, err == nil)
}
