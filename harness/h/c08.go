package h

import (
	"hv/nd"

	"github.com/terra-money/alliance/x/alliance/types"
)

// H_C08_total: for every RI state with bonded positions, pending unbondings and a pending
// redelegation out of the slashed validator (whose destination position may have shrunk or
// vanished since), the slash callback returns nil without panic and queues a rebalance.
func H_C08_total() {
	id := "C08.total"
	dstState := nd.Choice("dst", 3) // 0: destination position intact, 1: absent, 2: present but arbitrary (may be smaller than the slash)
	pk := nd.Choice("pending", 3)
	ps := []Pos{{0, 0, 0}, {1, 1, 0}}
	if dstState != 1 {
		ps = append(ps, Pos{0, 1, 0})
	}
	st := Build(ps, Opts{Rewards: true})
	e := st.E
	pendingUnbondings(st, pk)
	c1 := nd.TimeRange("rc1", TLo, THi)
	r1 := nd.IntRange("r1", "1", Pow30)
	InstallRedelegation(e, 0, 0, 1, 0, r1, c1)
	switch dstState {
	case 1:
		nd.Tag("redelegation-dst-gone")
	case 2:
		nd.Tag("redelegation-dst-arbitrary")
	}
	tagPoolShort(e, 0, 1)
	f := nd.DecRange("fraction", "0.000000000000000001", "1")
	var err error
	nd.Reach(id)
	if !NoPanic(id, func() { err = e.K.StakingHooks().BeforeValidatorSlashed(e.Ctx, Vals[0], f) }) {
		return
	}
	nd.Assert(id, err == nil)
	ok, _ := e.Store.Has(types.AssetRebalanceQueueKey)
	nd.Assert(id+".rebalance", ok)
}

// H_C08_nostake: a validator without any alliance record is slashed without error.
func H_C08_nostake() {
	id := "C08.nostake"
	st := Build([]Pos{{1, 1, 0}}, Opts{})
	e := st.E
	f := nd.DecRange("fraction", "0.000000000000000001", "1")
	var err error
	nd.Reach(id)
	if !NoPanic(id, func() { err = e.K.StakingHooks().BeforeValidatorSlashed(e.Ctx, Vals[0], f) }) {
		return
	}
	nd.Assert(id, err == nil)
	ok, _ := e.Store.Has(types.AssetRebalanceQueueKey)
	nd.Assert(id+".rebalance", ok)
}
