package h

import (
	"hv/nd"

	"github.com/terra-money/alliance/x/alliance/types"
)

// H_C08_total: for every RI state with bonded positions, pending unbondings and a pending
// redelegation out of the slashed validator (whose destination position may have shrunk or
// vanished since), the slash callback returns nil without panic and queues a rebalance.
func H_C08_total() {
	id := "C08.total"
	nd.UFWindow(24)                 // the slash changes share totals; relating values before/after needs monotonicity
	dstState := nd.Choice("dst", 3) // destination position of the pending redelegation: 0 present (any size), 1 absent, 2: absent and the alliance of its denom was deleted since
	pk := nd.Choice("pending", 3)
	ps := []Pos{{0, 0, 0}, {1, 1, 0}}
	if dstState == 0 {
		ps = append(ps, Pos{0, 1, 0})
	}
	st := Build(ps, Opts{})
	e := st.E
	pendingUnbondings(st, pk)
	c1 := nd.TimeRange("rc1", TLo, THi)
	r1 := nd.IntRange("r1", "1", Pow30)
	if dstState == 2 {
		// everybody withdrew that denom and governance deleted the (empty) alliance while the entry is pending
		InstallRedelegation(e, 0, 0, 1, 1, r1, c1)
	} else {
		InstallRedelegation(e, 0, 0, 1, 0, r1, c1)
	}
	f := nd.DecRange("fraction", "0.000000000000000001", "1")
	pendingRedel := !c1.Before(st.T0)
	if pendingRedel && dstState != 2 {
		if dstState == 1 {
			nd.Tag("redelegation-dst-gone")
		} else {
			// has the destination position shrunk below what the slash wants to take?
			asset, _ := e.K.GetAssetByDenom(e.Ctx, Denoms[0])
			del, _ := e.K.GetDelegation(e.Ctx, Dels[0], Vals[1], Denoms[0])
			have := types.GetDelegationTokens(del, AV(e, Vals[1]), asset).Amount
			if have.LT(f.MulInt(r1).TruncateInt()) {
				nd.Tag("redelegation-dst-shrunk")
			}
		}
		tagLiveness(e, 1)
	}
	var err error
	nd.Reach(id)
	if !NoPanic(id, func() { err = e.K.StakingHooks().BeforeValidatorSlashed(e.Ctx, Vals[0], f) }) {
		return
	}
	ErrNote(err)
	nd.Assert(id, err == nil)
	ok, _ := e.Store.Has(types.AssetRebalanceQueueKey)
	nd.Assert(id+".rebalance", ok)
}

// H_C08_nostake: a validator without any alliance record is slashed without error.
func H_C08_nostake() {
	id := "C08.nostake"
	st := Build([]Pos{{1, 1, 0}}, Opts{})
	e := st.E
	f := nd.DecRange("fraction", "0.000000000000000001", "1")
	var err error
	nd.Reach(id)
	if !NoPanic(id, func() { err = e.K.StakingHooks().BeforeValidatorSlashed(e.Ctx, Vals[0], f) }) {
		return
	}
	nd.Assert(id, err == nil)
	ok, _ := e.Store.Has(types.AssetRebalanceQueueKey)
	nd.Assert(id+".rebalance", ok)
}
