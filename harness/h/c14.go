package h

import (
	"time"

	"cosmossdk.io/math"
	sdk "github.com/cosmos/cosmos-sdk/types"
	stakingtypes "github.com/cosmos/cosmos-sdk/x/staking/types"

	"hv/env"
	"hv/nd"

	"github.com/terra-money/alliance/x/alliance/keeper"
	"github.com/terra-money/alliance/x/alliance/types"
)

// decayState: asset 0 with a symbolic decay schedule and stake on validator 0 (module stake,
// pending distribution rewards, reward indices), optional second decaying asset.
// decayVal1Unbonding: set by a harness (before decayState) to make validator 1 an unbonding validator.
var decayVal1Unbonding bool

func decayState(rate math.LegacyDec, symbolicClock bool, second bool) (*env.Env, time.Time, types.AllianceAsset) {
	t0 := nd.TimeRange("t0", TLo, THi)
	e := env.New(t0, 100)
	mod := e.Ak.GetModuleAddress(types.ModuleName)
	for v := 0; v < 2; v++ {
		n := string(rune('0' + v))
		status := stakingtypes.Bonded
		if v == 1 && decayVal1Unbonding {
			// left the active set but still has outstanding rewards in x/distribution
			status = stakingtypes.Unbonding
		}
		NewValidator(e, Vals[v], status, math.NewInt(2000000), math.LegacyNewDec(2000000))
		e.Stk.SetDelegationRaw(mod, Vals[v], stakingDelegation(mod, Vals[v], math.LegacyNewDec(1000000)))
		pend := nd.IntRange("pend_"+n, "0", Pow12)
		if !pend.IsZero() {
			e.Distr.Allocate(mod, Vals[v], sdk.Coins{sdk.Coin{Denom: env.BondDenom, Amount: pend}})
		}
		info := types.NewAllianceValidatorInfo()
		info.TotalDelegatorShares = sdk.NewDecCoins(sdk.NewDecCoinFromDec(Denoms[0], math.LegacyNewDec(500)))
		info.ValidatorShares = sdk.NewDecCoins(sdk.NewDecCoinFromDec(Denoms[0], math.LegacyNewDec(500)))
		info.GlobalRewardHistory = []types.RewardHistory{{Denom: env.BondDenom, Alliance: Denoms[0], Index: nd.DecRange("gidx_"+n, "0", Pow12)}}
		_ = e.K.SetValidatorInfo(e.Ctx, Vals[v], info)
	}
	_ = e.K.SetParams(e.Ctx, types.Params{RewardDelayTime: time.Hour, TakeRateClaimInterval: 5 * time.Minute, LastTakeRateClaimTime: t0})
	mk := func(denom, tag string, tok int64) types.AllianceAsset {
		a := types.AllianceAsset{Denom: denom, RewardWeight: nd.DecRange("w"+tag, "0.001", "10"), // bound: a zero staked weight makes reward settlement divide by zero (C05/C17 finding)
			RewardWeightRange: types.RewardWeightRange{Min: nd.DecRange("min"+tag, "0", "10"), Max: nd.DecRange("max"+tag, "0", "10")},
			TakeRate:          math.LegacyZeroDec(), TotalTokens: math.NewInt(tok), TotalValidatorShares: math.LegacyNewDec(tok),
			RewardStartTime: t0.Add(-time.Hour), RewardChangeRate: rate, IsInitialized: true}
		nd.Assume(nd.And(a.RewardWeightRange.Min.LTE(a.RewardWeight), a.RewardWeight.LTE(a.RewardWeightRange.Max)))
		if symbolicClock {
			a.RewardChangeInterval = nd.DurRange("civ"+tag, 0, int64(366*24*time.Hour))
			a.LastRewardChangeTime = nd.TimeRange("clast"+tag, TLo, THi)
			nd.Assume(!a.LastRewardChangeTime.After(t0))
		} else {
			a.RewardChangeInterval = time.Hour
			a.LastRewardChangeTime = t0
		}
		_ = e.K.SetAsset(e.Ctx, a)
		e.Bank.Fund(mod, denom, a.TotalTokens)
		return a
	}
	a := mk(Denoms[0], "0", 1000)
	if second {
		mk(Denoms[1], "1", 0)
	}
	e.Bank.Fund(e.Ak.GetModuleAddress(types.RewardsPoolName), env.BondDenom, math.NewInt(1000000))
	return e, t0, a
}

// H_C14_clock_X (exact): the decay fires iff last+interval <= now (and a decay is configured);
// the decay clock advances by whole intervals, never past the block time, lagging < 1 interval.
func H_C14_clock_X() {
	id := "C14.clock"
	e, t0, a := decayState(math.LegacyNewDecWithPrec(5, 1), true, false)
	t1 := nd.TimeRange("t1", TLo, THi)
	nd.Assume(!t1.Before(t0))
	nd.Assume(t1.Sub(a.LastRewardChangeTime) <= 8*a.RewardChangeInterval || a.RewardChangeInterval == 0)
	e.WithBlock(t1, 101)
	var err error
	nd.Reach(id)
	if !NoPanic(id, func() { err = e.K.RewardWeightChangeHook(e.Ctx, e.K.GetAllAssets(e.Ctx)) }) {
		return
	}
	nd.Assert(id+".ok", err == nil)
	post, _ := e.K.GetAssetByDenom(e.Ctx, Denoms[0])
	if a.RewardChangeInterval == 0 {
		nd.Assert(id+".off", nd.And(post.LastRewardChangeTime.Equal(a.LastRewardChangeTime), post.RewardWeight.Equal(a.RewardWeight)))
		return
	}
	due := !a.LastRewardChangeTime.Add(a.RewardChangeInterval).After(t1)
	if due {
		lag := t1.Sub(post.LastRewardChangeTime)
		adv := post.LastRewardChangeTime.Sub(a.LastRewardChangeTime)
		nd.Assert(id+".bounded", nd.And(lag >= 0, lag < a.RewardChangeInterval))
		nd.Assert(id+".whole", nd.And(adv > 0, adv%a.RewardChangeInterval == 0))
	} else {
		nd.Assert(id+".idle", nd.And(post.LastRewardChangeTime.Equal(a.LastRewardChangeTime), post.RewardWeight.Equal(a.RewardWeight)))
	}
}

// H_C14_decay: after n whole intervals the weight is clamp(w * rate^n) within the configured
// range; when it changes every validator's pending rewards were settled first, a snapshot of
// the previous weight and current indices is stored at the block height and a rebalance is queued.
func H_C14_decay() {
	id := "C14.decay"
	n := nd.Choice("n", 4) // whole intervals elapsed
	two := nd.Choice("two", 2)
	decayVal1Unbonding = nd.Choice("val1unbonding", 2) == 1
	rate := nd.DecRange("crate", "0.000000000000000001", "2")
	e, t0, a := decayState(rate, false, two == 1)
	rem := nd.DurRange("rem", 0, int64(time.Hour)-1)
	t1 := t0.Add(time.Duration(n)*time.Hour + rem)
	e.WithBlock(t1, 101)
	mod := e.Ak.GetModuleAddress(types.ModuleName)
	var err error
	nd.Reach(id)
	if !NoPanic(id, func() { err = e.K.RewardWeightChangeHook(e.Ctx, e.K.GetAllAssets(e.Ctx)) }) {
		return
	}
	nd.Assert(id+".ok", err == nil)
	post, _ := e.K.GetAssetByDenom(e.Ctx, Denoms[0])
	nd.Assert(id+".range", nd.And(post.RewardWeightRange.Min.LTE(post.RewardWeight), post.RewardWeight.LTE(post.RewardWeightRange.Max)))
	if n == 0 || rate.Equal(math.LegacyOneDec()) {
		nd.Assert(id+".idle", nd.And(post.RewardWeight.Equal(a.RewardWeight), post.LastRewardChangeTime.Equal(a.LastRewardChangeTime)))
		return
	}
	want := a.RewardWeight.Mul(rate.Power(uint64(n)))
	want = nd.IteDec(want.LT(a.RewardWeightRange.Min), a.RewardWeightRange.Min, want)
	want = nd.IteDec(want.GT(a.RewardWeightRange.Max), a.RewardWeightRange.Max, want)
	nd.Assert(id+".value", post.RewardWeight.Equal(want))
	nd.Assert(id+".clock", post.LastRewardChangeTime.Equal(t0.Add(time.Duration(n)*time.Hour)))
	if !post.RewardWeight.Equal(a.RewardWeight) {
		for v := 0; v < 2; v++ {
			// settled: nothing left pending in the distribution module for the module's stake
			_, pending := e.Distr.Pending[string(mod)+"/"+string(Vals[v])]
			nd.Assert(id+".settle", !pending)
			var snap types.RewardWeightChangeSnapshot
			b, _ := e.Store.Get(types.GetRewardWeightChangeSnapshotKey(Denoms[0], Vals[v], 101))
			nd.Assert(id+".snapshot", b != nil)
			if b != nil {
				e.Codec().MustUnmarshal(b, &snap)
				info, _ := e.K.GetAllianceValidatorInfo(e.Ctx, Vals[v])
				nd.Assert(id+".snapshot", nd.And(snap.PrevRewardWeight.Equal(a.RewardWeight), len(snap.RewardHistories) == len(info.GlobalRewardHistory)))
				if len(snap.RewardHistories) == 1 && len(info.GlobalRewardHistory) == 1 {
					nd.Assert(id+".snapshot", snap.RewardHistories[0].Index.Equal(info.GlobalRewardHistory[0].Index))
				}
			}
		}
		ok, _ := e.Store.Has(types.AssetRebalanceQueueKey)
		nd.Assert(id+".rebalance", ok)
	}
}

// H_C14_warmup: before its reward start time an asset earns nothing: a reward deposit for the
// validator leaves the asset's indices untouched and a claim pays nothing.
func H_C14_warmup() {
	id := "C14.warmup"
	st := Build([]Pos{{0, 0, 0}, {1, 0, 0}}, Opts{Rewards: true, Started: 1})
	e := st.E
	pre := bal(e, 0, 0)
	preStake := e.Bank.Balance(Dels[0], env.BondDenom)
	infoPre, _ := e.K.GetAllianceValidatorInfo(e.Ctx, Vals[0])
	var err error
	nd.Reach(id)
	if !NoPanic(id, func() { _, err = e.K.ClaimValidatorRewards(e.Ctx, AV(e, Vals[0])) }) {
		return
	}
	nd.Assert(id+".ok", err == nil)
	info, _ := e.K.GetAllianceValidatorInfo(e.Ctx, Vals[0])
	nd.Assert(id+".index", len(info.GlobalRewardHistory) == len(infoPre.GlobalRewardHistory))
	for i := range info.GlobalRewardHistory {
		if i < len(infoPre.GlobalRewardHistory) {
			nd.Assert(id+".index", info.GlobalRewardHistory[i].Index.Equal(infoPre.GlobalRewardHistory[i].Index))
		}
	}
	if !NoPanic(id, func() { _, err = e.K.ClaimDelegationRewards(e.Ctx, Dels[0], AV(e, Vals[0]), Denoms[0]) }) {
		return
	}
	nd.Assert(id+".ok", err == nil)
	nd.Assert(id+".nopay", nd.And(bal(e, 0, 0).Equal(pre), e.Bank.Balance(Dels[0], env.BondDenom).Equal(preStake)))
}

// H_C14_govclock: a governance update of the decay parameters is not retroactive. If no decay was
// scheduled before (rate 1 or interval 0) and the update changes rate or interval, the decay clock
// restarts at the block time; if a decay was already scheduled, or nothing about the decay changes,
// the clock is left alone.
func H_C14_govclock() {
	id := "C14.govclock"
	idle := nd.Choice("previously", 3) // 0: rate 1 and interval 0, 1: rate 1 with an interval, 2: a decay is scheduled
	t0 := nd.TimeRange("t0", TLo, THi)
	e := env.New(t0, 100)
	NewValidator(e, Vals[0], 3, math.NewInt(1000000), math.LegacyNewDec(1000000))
	_ = e.K.SetParams(e.Ctx, types.Params{RewardDelayTime: time.Hour, TakeRateClaimInterval: 5 * time.Minute, LastTakeRateClaimTime: t0})
	a := types.AllianceAsset{Denom: Denoms[0], RewardWeight: math.LegacyOneDec(),
		RewardWeightRange: types.RewardWeightRange{Min: math.LegacyZeroDec(), Max: math.LegacyNewDec(10)},
		TakeRate:          math.LegacyZeroDec(), TotalTokens: math.NewInt(1000), TotalValidatorShares: math.LegacyNewDec(1000),
		RewardStartTime: nd.TimeRange("start", TLo, THi), RewardChangeRate: math.LegacyOneDec(), IsInitialized: true}
	nd.Assume(!a.RewardStartTime.After(t0))
	a.LastRewardChangeTime = nd.TimeRange("clast", TLo, THi)
	nd.Assume(!a.LastRewardChangeTime.After(t0))
	switch idle {
	case 1:
		a.RewardChangeInterval = nd.DurRange("civ", 1, int64(366*24*time.Hour))
	case 2:
		a.RewardChangeInterval = nd.DurRange("civ", 1, int64(366*24*time.Hour))
		a.RewardChangeRate = nd.DecRange("crate", "0.000000000000000001", "2")
		nd.Assume(!a.RewardChangeRate.Equal(math.LegacyOneDec()))
	}
	_ = e.K.SetAsset(e.Ctx, a)
	msg := &types.MsgUpdateAlliance{Authority: e.Authority, Denom: Denoms[0], RewardWeight: a.RewardWeight, TakeRate: a.TakeRate,
		RewardChangeRate:     nd.DecRange("m_cr", "0.000000000000000001", "2"),
		RewardChangeInterval: nd.DurRange("m_ci", 0, int64(366*24*time.Hour)),
		RewardWeightRange:    a.RewardWeightRange}
	var err error
	if Caught(func() { _, err = keeper.NewMsgServerImpl(e.K).UpdateAlliance(e.Ctx, msg) }) || err != nil {
		return
	}
	nd.Reach(id)
	post, _ := e.K.GetAssetByDenom(e.Ctx, Denoms[0])
	changed := !msg.RewardChangeRate.Equal(a.RewardChangeRate) || msg.RewardChangeInterval != a.RewardChangeInterval
	if changed && idle != 2 {
		nd.Assert(id+".restart", post.LastRewardChangeTime.Equal(t0))
	} else {
		nd.Assert(id+".keep", post.LastRewardChangeTime.Equal(a.LastRewardChangeTime))
	}
}

// H_C14_govsettle: a governance weight change (MsgUpdateAlliance) affects only rewards received
// afterwards: for every old weight in the asset's range - including exactly zero - and every new
// weight that differs from it, the rewards pending in the distribution module for the module's stake
// were settled (at the old weights) before the new weight was stored, a snapshot of the old weight
// exists at the block height for every validator, and a rebalance is queued. Both assets are staked
// on both validators and the other asset keeps a positive weight (so the settlement's weighted split
// has a non-zero denominator; the all-zero case is the C05/C17 finding).
func H_C14_govsettle() {
	id := "C14.govsettle"
	zero := nd.Choice("oldzero", 2) // 1: the old weight is exactly zero
	e, _, a := decayState(math.LegacyOneDec(), false, true)
	mod := e.Ak.GetModuleAddress(types.ModuleName)
	b, _ := e.K.GetAssetByDenom(e.Ctx, Denoms[1])
	b.TotalTokens, b.TotalValidatorShares = math.NewInt(1000), math.LegacyNewDec(1000)
	_ = e.K.SetAsset(e.Ctx, b)
	e.Bank.Fund(mod, Denoms[1], b.TotalTokens)
	for v := 0; v < 2; v++ {
		info, _ := e.K.GetAllianceValidatorInfo(e.Ctx, Vals[v])
		info.TotalDelegatorShares = sdk.NewDecCoins(sdk.NewDecCoinFromDec(Denoms[0], math.LegacyNewDec(500)), sdk.NewDecCoinFromDec(Denoms[1], math.LegacyNewDec(500)))
		info.ValidatorShares = sdk.NewDecCoins(sdk.NewDecCoinFromDec(Denoms[0], math.LegacyNewDec(500)), sdk.NewDecCoinFromDec(Denoms[1], math.LegacyNewDec(500)))
		_ = e.K.SetValidatorInfo(e.Ctx, Vals[v], info)
	}
	if zero == 1 {
		a.RewardWeight = math.LegacyZeroDec()
		a.RewardWeightRange.Min = math.LegacyZeroDec()
		_ = e.K.SetAsset(e.Ctx, a)
	}
	neww := nd.DecRange("m_w", "0", "10")
	nd.Assume(nd.And(!neww.Equal(a.RewardWeight), a.RewardWeightRange.Min.LTE(neww), neww.LTE(a.RewardWeightRange.Max)))
	msg := &types.MsgUpdateAlliance{Authority: e.Authority, Denom: Denoms[0], RewardWeight: neww, TakeRate: a.TakeRate,
		RewardChangeRate: a.RewardChangeRate, RewardChangeInterval: a.RewardChangeInterval, RewardWeightRange: a.RewardWeightRange}
	var err error
	nd.Reach(id)
	if !NoPanic(id, func() { _, err = keeper.NewMsgServerImpl(e.K).UpdateAlliance(e.Ctx, msg) }) {
		return
	}
	nd.Assert(id+".ok", err == nil)
	post, _ := e.K.GetAssetByDenom(e.Ctx, Denoms[0])
	nd.Assert(id+".stored", post.RewardWeight.Equal(neww))
	for v := 0; v < 2; v++ {
		_, pending := e.Distr.Pending[string(mod)+"/"+string(Vals[v])]
		nd.Assert(id+".settle", !pending)
		var snap types.RewardWeightChangeSnapshot
		bz, _ := e.Store.Get(types.GetRewardWeightChangeSnapshotKey(Denoms[0], Vals[v], 100))
		nd.Assert(id+".snapshot", bz != nil)
		if bz != nil {
			e.Codec().MustUnmarshal(bz, &snap)
			nd.Assert(id+".snapshot", snap.PrevRewardWeight.Equal(a.RewardWeight))
		}
	}
	ok, _ := e.Store.Has(types.AssetRebalanceQueueKey)
	nd.Assert(id+".rebalance", ok)
}
