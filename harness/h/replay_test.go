package h

import (
	"encoding/json"
	"flag"
	"fmt"
	"testing"

	"hv/nd"
)

var witnessFlag = flag.String("witness", "", "witness JSON written by symgo")

type replayOut struct {
	Failed    []string          `json:"failed"`
	Reached   []string          `json:"reached"`
	BadAssume []string          `json:"bad_assume"`
	Observed  map[string]string `json:"observed"`
	Panic     string            `json:"panic"`
	Tags      []string          `json:"tags"`
	Notes     map[string]string `json:"notes"`
}

// TestReplay runs one harness natively (real keeper, real cosmossdk.io/math, real codec)
// on the inputs of a solver witness and reports which assertions fail.
func TestReplay(t *testing.T) {
	if *witnessFlag == "" {
		t.Skip("no -witness given")
	}
	w, err := nd.LoadWitness(*witnessFlag)
	if err != nil {
		t.Fatal(err)
	}
	fn, ok := Registry[w.Harness]
	if !ok {
		t.Fatalf("unknown harness %s", w.Harness)
	}
	nd.Begin(w)
	out := replayOut{}
	func() {
		defer func() {
			if r := recover(); r != nil {
				switch r.(type) {
				case nd.AssumeFailed, nd.PathEnd:
				default:
					out.Panic = fmt.Sprint(r)
					nd.Res.Failed = append(nd.Res.Failed, w.Harness+".nopanic")
				}
			}
		}()
		fn()
	}()
	out.Failed = nd.Res.Failed
	out.Reached = nd.Res.Reached
	out.BadAssume = nd.Res.BadAssume
	out.Observed = nd.Res.Observed
	out.Tags = nd.Res.Tags
	out.Notes = nd.Res.Notes
	b, _ := json.Marshal(out)
	fmt.Printf("REPLAY-RESULT %s\n", b)
}
