package h

import (
	"cosmossdk.io/math"
	sdk "github.com/cosmos/cosmos-sdk/types"

	"hv/env"
	"hv/nd"

	"github.com/terra-money/alliance/x/alliance/types"
)

func valShares(e *env.Env, v int, denom string) math.LegacyDec {
	info, found := e.K.GetAllianceValidatorInfo(e.Ctx, Vals[v])
	if !found {
		return math.LegacyZeroDec()
	}
	return sdk.DecCoins(info.ValidatorShares).AmountOf(denom)
}

func delShares(e *env.Env, v int, denom string) math.LegacyDec {
	info, found := e.K.GetAllianceValidatorInfo(e.Ctx, Vals[v])
	if !found {
		return math.LegacyZeroDec()
	}
	return sdk.DecCoins(info.TotalDelegatorShares).AmountOf(denom)
}

func delegationShares(e *env.Env, p Pos) (math.LegacyDec, bool) {
	d, found := e.K.GetDelegation(e.Ctx, Dels[p.D], Vals[p.V], Denoms[p.A])
	if !found {
		return math.LegacyZeroDec(), false
	}
	return d.Shares, true
}

func moduleBal(e *env.Env, denom string) math.Int {
	return e.Bank.Balance(e.Ak.GetModuleAddress(types.ModuleName), denom)
}

// H_C06_struct: slashing validator 0 by f removes x = shares*f from the validator's shares of
// every asset and the same x from the asset's share total; staked totals, custody, other
// validators and all delegation records are untouched (no pending entries in this state).
func H_C06_struct() {
	id := "C06.struct"
	k := nd.Choice("shape", 4)
	two := nd.Choice("denoms", 2)
	ps := []Pos{{0, 0, 0}}
	if k&1 != 0 {
		ps = append(ps, Pos{1, 0, 0})
	}
	if k&2 != 0 {
		ps = append(ps, Pos{1, 1, 0})
	}
	o := Opts{Started: 2} // reward start time of each asset symbolic: the slash applies to warming-up assets too
	// x/staking also slashes a validator that already left the active set (jailed for downtime, then
	// double-sign evidence): the alliance stake on it is slashed all the same
	o.Val0Unbonding = nd.Choice("unbonding", 2) == 1
	if two == 1 {
		o.NDenoms = 2
		ps = append(ps, Pos{0, 0, 1})
	}
	st := Build(ps, o)
	e := st.E
	f := nd.DecRange("fraction", "0.000000000000000001", "1")
	type pre struct {
		vs0, vs1, tvs math.LegacyDec
		tds0, tds1    math.LegacyDec
		tok, cust     math.Int
	}
	nden := 1 + two
	var p []pre
	for a := 0; a < nden; a++ {
		as, _ := e.K.GetAssetByDenom(e.Ctx, Denoms[a])
		p = append(p, pre{valShares(e, 0, Denoms[a]), valShares(e, 1, Denoms[a]), as.TotalValidatorShares,
			delShares(e, 0, Denoms[a]), delShares(e, 1, Denoms[a]), as.TotalTokens, moduleBal(e, Denoms[a])})
	}
	var preDel []math.LegacyDec
	for _, q := range ps {
		s, _ := delegationShares(e, q)
		preDel = append(preDel, s)
	}
	var err error
	nd.Reach(id)
	if !NoPanic(id, func() { err = e.K.StakingHooks().BeforeValidatorSlashed(e.Ctx, Vals[0], f) }) {
		return
	}
	nd.Assert(id+".ok", err == nil)
	if err != nil {
		return
	}
	for a := 0; a < nden; a++ {
		as, _ := e.K.GetAssetByDenom(e.Ctx, Denoms[a])
		x := p[a].vs0.Mul(f)
		nd.Assert(id+".validator", valShares(e, 0, Denoms[a]).Equal(p[a].vs0.Sub(x)))
		nd.Assert(id+".asset", as.TotalValidatorShares.Equal(p[a].tvs.Sub(x)))
		nd.Assert(id+".frame", nd.And(as.TotalTokens.Equal(p[a].tok), moduleBal(e, Denoms[a]).Equal(p[a].cust),
			valShares(e, 1, Denoms[a]).Equal(p[a].vs1), delShares(e, 0, Denoms[a]).Equal(p[a].tds0), delShares(e, 1, Denoms[a]).Equal(p[a].tds1)))
	}
	for i, q := range ps {
		s, found := delegationShares(e, q)
		nd.Assert(id+".frame", nd.And(found, s.Equal(preDel[i])))
	}
	ok, _ := e.Store.Has(types.AssetRebalanceQueueKey)
	nd.Assert(id+".rebalance", ok)
}

// H_C06_reject: fractions outside (0,1] are rejected and nothing is written.
func H_C06_reject() {
	id := "C06.reject"
	st := Build([]Pos{{0, 0, 0}, {1, 1, 0}}, Opts{})
	e := st.E
	f := nd.DecRange("fraction", "-2", "2")
	nd.Assume(nd.Or(f.LTE(math.LegacyZeroDec()), f.GT(math.LegacyOneDec())))
	w0 := e.Store.Writes
	var err error
	nd.Reach(id)
	NoPanic(id, func() { err = e.K.StakingHooks().BeforeValidatorSlashed(e.Ctx, Vals[0], f) })
	nd.Assert(id, nd.And(err != nil, e.Store.Writes == w0))
}

// H_C06_redel: the slash of validator 0 while a redelegation out of it (into validator 1) is still
// pending. The value taken from the destination position is redistributed, never destroyed: the
// destination validator keeps its validator shares (only its delegator-share total and the
// position shrink, which is C07's subject), the asset's staked total and custody are unchanged,
// the asset's share total drops by exactly the slashed validator's x = shares*f, and the
// co-delegator on the destination keeps its shares. (Totality of the callback is C08's subject.)
func H_C06_redel() {
	id := "C06.redel"
	st := Build([]Pos{{0, 0, 0}, {0, 1, 0}, {1, 1, 0}}, Opts{NVals: 3})
	e := st.E
	c1 := nd.TimeRange("c1", TLo, THi)
	InstallRedelegation(e, 0, 0, 1, 0, nd.IntRange("r1", "1", Pow30), c1)
	f := nd.DecRange("fraction", "0.000000000000000001", "1")
	nd.Hint(f.Equal(math.LegacyNewDecWithPrec(5, 1)))
	as0, _ := e.K.GetAssetByDenom(e.Ctx, Denoms[0])
	preVS0, preVS1, preVS2 := valShares(e, 0, Denoms[0]), valShares(e, 1, Denoms[0]), valShares(e, 2, Denoms[0])
	preCust := moduleBal(e, Denoms[0])
	preOther, _ := delegationShares(e, Pos{1, 1, 0})
	var err error
	if Caught(func() { err = e.K.StakingHooks().BeforeValidatorSlashed(e.Ctx, Vals[0], f) }) || err != nil {
		return
	}
	nd.Reach(id)
	as1, _ := e.K.GetAssetByDenom(e.Ctx, Denoms[0])
	x := preVS0.Mul(f)
	nd.Assert(id+".destination", nd.And(valShares(e, 1, Denoms[0]).Equal(preVS1), valShares(e, 2, Denoms[0]).Equal(preVS2)))
	nd.Assert(id+".slashed", valShares(e, 0, Denoms[0]).Equal(preVS0.Sub(x)))
	nd.Assert(id+".asset", as1.TotalValidatorShares.Equal(as0.TotalValidatorShares.Sub(x)))
	nd.Assert(id+".total", nd.And(as1.TotalTokens.Equal(as0.TotalTokens), moduleBal(e, Denoms[0]).Equal(preCust)))
	other, found := delegationShares(e, Pos{1, 1, 0})
	nd.Assert(id+".others", nd.And(found, other.Equal(preOther)))
}
