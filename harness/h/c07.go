package h

import (
	"time"

	"cosmossdk.io/math"

	"hv/nd"

	"github.com/terra-money/alliance/x/alliance/types"
)

// H_C07_undel: slashing validator 0 by f at block time t reduces each still-pending unbonding
// entry that originated from validator 0 by exactly floor(f*balance), once, forwards exactly
// that amount to the fee collector and touches no other entry (matured, other validator, other denom).
func H_C07_undel() {
	id := "C07.undel"
	k := nd.Choice("packing", 6)
	ps := []Pos{{0, 0, 0}, {1, 1, 0}}
	if nd.Choice("emptied", 2) == 1 {
		// the slashed validator holds no bonded alliance stake any more (everybody left), only the
		// pending entries remain
		ps = []Pos{{1, 1, 0}}
	}
	st := Build(ps, Opts{NDenoms: 2})
	e := st.E
	c1 := nd.TimeRange("c1", TLo, THi)
	q1 := nd.IntRange("q1", "1", Pow30)
	type ent struct {
		c time.Time
		i int
		Entry
	}
	var all []ent
	install := func(c time.Time, es []Entry) {
		InstallUnbonding(e, 0, c, es)
		for i, x := range es {
			all = append(all, ent{c, i, x})
		}
	}
	switch k {
	case 0: // one entry from the slashed validator
		install(c1, []Entry{{0, 0, q1}})
	case 1: // bucket shared with an entry from another validator
		install(c1, []Entry{{0, 0, q1}, {1, 0, nd.IntRange("q2", "1", Pow30)}})
		nd.Tag("shared-bucket")
	case 2: // same validator, two denoms: two index keys lead to one bucket
		install(c1, []Entry{{0, 0, q1}, {0, 1, nd.IntRange("q2", "1", Pow30)}})
		nd.Tag("shared-bucket")
	case 3: // repeated undelegation from the same validator and denom in one block
		install(c1, []Entry{{0, 0, q1}, {0, 0, nd.IntRange("q2", "1", Pow30)}})
	case 4: // two buckets at different times
		c2 := nd.TimeRange("c2", TLo, THi)
		nd.Assume(!c2.Equal(c1))
		install(c1, []Entry{{0, 0, q1}})
		install(c2, []Entry{{0, 0, nd.IntRange("q2", "1", Pow30)}})
	case 5: // only an entry of another validator
		install(c1, []Entry{{1, 0, q1}})
	}
	f := nd.DecRange("fraction", "0.000000000000000001", "1")
	fee := e.Ak.GetModuleAddress("fee_collector")
	preFee := []math.Int{e.Bank.Balance(fee, Denoms[0]), e.Bank.Balance(fee, Denoms[1])}
	var err error
	nd.Reach(id)
	if !NoPanic(id, func() { err = e.K.StakingHooks().BeforeValidatorSlashed(e.Ctx, Vals[0], f) }) {
		return
	}
	nd.Assert(id+".ok", err == nil)
	if err != nil {
		return
	}
	expFee := []math.Int{math.ZeroInt(), math.ZeroInt()}
	for _, x := range all {
		post, found := bucket(e, x.c, 0)
		nd.Assert(id+".kept", found)
		if !found || len(post.Entries) <= x.i {
			continue
		}
		pending := nd.Not(x.c.Before(st.T0)) // completion >= block time: still pending
		cut := math.ZeroInt()
		if x.V == 0 {
			cut = nd.IteInt(pending, f.MulInt(x.Amt).TruncateInt(), math.ZeroInt())
		}
		expFee[x.A] = expFee[x.A].Add(cut)
		nd.Assert(id+".entry", post.Entries[x.i].Balance.Amount.Equal(x.Amt.Sub(cut)))
	}
	for a := 0; a < 2; a++ {
		nd.Assert(id+".fee", e.Bank.Balance(fee, Denoms[a]).Equal(preFee[a].Add(expFee[a])))
	}
}

// H_C07_redel_indep: the slash of one pending redelegation does not depend on the OTHER redelegations
// out of the slashed validator - in particular not on an (earlier- or later-sorting) one whose
// destination position no longer exists. Differential: the same slash on the state with and without
// the extra redelegation must leave the same destination position.
func H_C07_redel_indep() {
	id := "C07.redel.indep"
	st := Build([]Pos{{0, 0, 0}, {0, 1, 0}, {1, 1, 0}}, Opts{NVals: 3})
	e := st.E
	c1 := nd.TimeRange("c1", TLo, THi)
	InstallRedelegation(e, 0, 0, 1, 0, nd.IntRange("r1", "1", Pow30), c1)
	b := e.Branch()
	// delegator 1 redelegated v0 -> v2 and has since left v2 completely
	InstallRedelegation(e, 1, 0, 2, 0, nd.IntRange("r0", "1", Pow30), nd.TimeRange("c0", TLo, THi))
	f := nd.DecRange("fraction", "0.000000000000000001", "1")
	nd.Hint(f.Equal(math.LegacyNewDecWithPrec(5, 1)))
	var errA, errB error
	if Caught(func() { errA = e.K.StakingHooks().BeforeValidatorSlashed(e.Ctx, Vals[0], f) }) || errA != nil {
		return // totality is C08's subject
	}
	if Caught(func() { errB = b.K.StakingHooks().BeforeValidatorSlashed(b.Ctx, Vals[0], f) }) || errB != nil {
		return
	}
	nd.Reach(id)
	dA, _ := delegationShares(e, Pos{0, 1, 0})
	dB, _ := delegationShares(b, Pos{0, 1, 0})
	nd.Assert(id, nd.And(dA.Equal(dB), delShares(e, 1, Denoms[0]).Equal(delShares(b, 1, Denoms[0]))))
}

// H_C07_redel: slashing the source validator of a pending redelegation removes shares from the
// destination position and from the destination validator's delegator-share total alike,
// leaves matured entries, entries from other sources and the redelegation records untouched.
func H_C07_redel() {
	id := "C07.redel"
	nd.UFWindow(24) // the slash changes share totals; relating values before/after needs monotonicity
	k := nd.Choice("packing", 4)
	st := Build([]Pos{{0, 0, 0}, {0, 1, 0}, {1, 1, 0}}, Opts{NVals: 3})
	e := st.E
	c1 := nd.TimeRange("c1", TLo, THi)
	r1 := nd.IntRange("r1", "1", Pow30)
	slashed := 0
	switch k {
	case 0: // d0: v0 -> v1 pending, slash the source
		InstallRedelegation(e, 0, 0, 1, 0, r1, c1)
	case 1: // slash the destination: nothing to do
		InstallRedelegation(e, 0, 0, 1, 0, r1, c1)
		slashed = 1
	case 2: // redelegation from another source (v2 -> v1), slash v0
		InstallRedelegation(e, 0, 2, 1, 0, r1, c1)
	case 3: // fan-in v0 -> v1 and v2 -> v1 completing at the same time: merged record
		InstallRedelegation(e, 0, 0, 1, 0, r1, c1)
		InstallRedelegation(e, 0, 2, 1, 0, nd.IntRange("r2", "1", Pow30), c1)
		nd.Tag("merged-redelegation")
	}
	f := nd.DecRange("fraction", "0.000000000000000001", "1")
	tagLiveness(e, 1) // C05's finding: a destination validator whose token value rounds to zero
	preDst, _ := delegationShares(e, Pos{0, 1, 0})
	preOther, _ := delegationShares(e, Pos{1, 1, 0})
	preSrc, _ := delegationShares(e, Pos{0, 0, 0})
	preTDS1 := delShares(e, 1, Denoms[0])
	var err error
	nd.Reach(id)
	if !NoPanic(id, func() { err = e.K.StakingHooks().BeforeValidatorSlashed(e.Ctx, Vals[slashed], f) }) {
		return
	}
	if err != nil {
		return // totality is C08's subject
	}
	dst, found := delegationShares(e, Pos{0, 1, 0})
	other, _ := delegationShares(e, Pos{1, 1, 0})
	src, _ := delegationShares(e, Pos{0, 0, 0})
	nd.Assert(id+".other", nd.And(found, other.Equal(preOther), src.Equal(preSrc)))
	touched := k == 0 || k == 3
	pending := nd.Not(c1.Before(st.T0))
	if touched && slashed == 0 {
		removed := preDst.Sub(dst)
		nd.Assert(id+".pair", delShares(e, 1, Denoms[0]).Equal(preTDS1.Sub(removed)))
		nd.Assert(id+".scope", nd.Implies(nd.Not(pending), removed.IsZero()))
		nd.Assert(id+".cap", nd.And(removed.GTE(math.LegacyZeroDec()), dst.GTE(math.LegacyZeroDec())))
	} else {
		nd.Assert(id+".scope", nd.And(dst.Equal(preDst), delShares(e, 1, Denoms[0]).Equal(preTDS1)))
	}
	// the redelegation record itself is not consumed by a slash
	has, _ := e.Store.Has(types.GetRedelegationKey(Dels[0], Denoms[0], Vals[1], c1))
	nd.Assert(id+".record", has)
}
