package h

import (
	"time"

	"cosmossdk.io/math"
	sdk "github.com/cosmos/cosmos-sdk/types"
	stakingtypes "github.com/cosmos/cosmos-sdk/x/staking/types"

	"hv/env"
	"hv/nd"

	"github.com/terra-money/alliance/x/alliance/keeper"
	"github.com/terra-money/alliance/x/alliance/types"
)

// rebState: validators v0, v1 bonded (+ v2 unbonded when third), concrete native stake and
// concrete current alliance stake; assets with symbolic weights and symbolic validator shares.
// slashedNext: the next rebalance state has a really slashed validator 1 (exchange rate 0.95)
var slashedNext bool

type rebState struct {
	Slashed bool
	E       *env.Env
	T0      time.Time
	Native  []int64 // native tokens per validator
	Cur     []int64 // module stake per validator
	NVals   int
	Bonded  []bool
	Weights []math.LegacyDec
	Started []bool
	VS      [][]math.LegacyDec // [asset][validator]
	TVS     []math.LegacyDec
}

func buildReb(third int, curK int, second int) *rebState { return buildRebZ(third, curK, second, -1) }

// buildRebZ: zeroV names a validator that holds no shares of asset 0 (-1: all hold some);
// every other share amount is strictly positive, which keeps the number of paths small.
func buildRebZ(third int, curK int, second int, zeroV int) *rebState {
	t0 := nd.TimeRange("t0", TLo, THi)
	e := env.New(t0, 100)
	_ = e.K.SetParams(e.Ctx, types.Params{RewardDelayTime: time.Hour, TakeRateClaimInterval: 5 * time.Minute, LastTakeRateClaimTime: t0})
	s := &rebState{E: e, T0: t0, Native: []int64{1000000, 3000000, 500000}, NVals: 2, Slashed: slashedNext}
	slashedNext = false
	if third != 0 {
		s.NVals = 3
	}
	curs := [][]int64{{0, 0, 0}, {400000, 0, 250000}, {50000, 2000000, 0}}[curK]
	s.Cur = curs
	mod := e.Ak.GetModuleAddress(types.ModuleName)
	for v := 0; v < s.NVals; v++ {
		status := stakingtypes.Bonded
		bonded := true
		if v == 2 {
			bonded = false
			status = stakingtypes.Unbonded
			if third == 2 {
				status = stakingtypes.Unbonding
			}
		}
		s.Bonded = append(s.Bonded, bonded)
		tok := math.NewInt(s.Native[v] + curs[v])
		shares := math.LegacyNewDecFromInt(tok)
		if s.Slashed && v == 1 {
			// validator 1 was really slashed by 5%: 100 shares are worth 95 tokens (exchange rate != 1)
			shares = math.LegacyNewDecFromInt(tok).MulInt64(100).QuoInt64(95)
		}
		val := NewValidator(e, Vals[v], status, tok, shares)
		if third == 3 && v == 2 {
			val.Jailed = true
			e.Stk.AddValidator(val)
		}
		if curs[v] > 0 {
			ds := math.LegacyNewDec(curs[v])
			if s.Slashed && v == 1 {
				ds = ds.MulInt64(100).QuoInt64(95)
			}
			e.Stk.SetDelegationRaw(mod, Vals[v], stakingDelegation(mod, Vals[v], ds))
		}
	}
	nAssets := 1
	if second != 0 {
		nAssets = 2
	}
	for a := 0; a < nAssets; a++ {
		an := string(rune('0' + a))
		w := nd.DecRange("w_"+an, "0", "10")
		started := true
		start := t0.Add(-time.Hour)
		if a == 1 && second == 2 {
			started = false
			start = t0.Add(time.Hour)
		}
		tvs := math.LegacyZeroDec()
		var row []math.LegacyDec
		for v := 0; v < s.NVals; v++ {
			lo := "0.000000000000000001"
			if a == 1 && nd.Thorough() {
				lo = "0" // the second asset may be absent from a validator (symbolic)
			}
			vs := nd.DecRange("vs_"+string(rune('0'+v))+an, lo, Pow12)
			if a == 0 && v == zeroV {
				vs = math.LegacyZeroDec()
			}
			row = append(row, vs)
			tvs = tvs.Add(vs)
			if vs.IsPositive() {
				info, found := e.K.GetAllianceValidatorInfo(e.Ctx, Vals[v])
				if !found {
					info = types.NewAllianceValidatorInfo()
				}
				info.ValidatorShares = sdk.DecCoins(info.ValidatorShares).Add(sdk.NewDecCoinFromDec(Denoms[a], vs))
				info.TotalDelegatorShares = sdk.DecCoins(info.TotalDelegatorShares).Add(sdk.NewDecCoinFromDec(Denoms[a], vs))
				_ = e.K.SetValidatorInfo(e.Ctx, Vals[v], info)
			} else if _, found := e.K.GetAllianceValidatorInfo(e.Ctx, Vals[v]); !found {
				_ = e.K.SetValidatorInfo(e.Ctx, Vals[v], types.NewAllianceValidatorInfo())
			}
		}
		asset := types.AllianceAsset{Denom: Denoms[a], RewardWeight: w,
			RewardWeightRange: types.RewardWeightRange{Min: math.LegacyZeroDec(), Max: math.LegacyNewDec(10)},
			TakeRate:          math.LegacyZeroDec(), TotalTokens: math.NewInt(1000000), TotalValidatorShares: tvs,
			RewardStartTime: start, RewardChangeRate: math.LegacyOneDec(), LastRewardChangeTime: start, IsInitialized: started}
		_ = e.K.SetAsset(e.Ctx, asset)
		s.Weights = append(s.Weights, w)
		s.Started = append(s.Started, started)
		s.VS = append(s.VS, row)
		s.TVS = append(s.TVS, tvs)
	}
	return s
}

func moduleStake(e *env.Env, v int) math.LegacyDec {
	mod := e.Ak.GetModuleAddress(types.ModuleName)
	d, err := e.Stk.GetDelegation(e.Ctx, mod, Vals[v])
	if err != nil {
		return math.LegacyZeroDec()
	}
	// the staking model keeps every validator at exchange rate 1 (asserted by rateOne), so the
	// stake in tokens is the share amount; this keeps the observation linear
	return d.Shares
}

// rateOne: tokens * 10^18 == delegator shares for every validator of the staking model.
func rateOne(id string, e *env.Env, n int) {
	for v := 0; v < n; v++ {
		val, _ := e.Stk.GetValidator(e.Ctx, Vals[v])
		nd.Assert(id+".rate1", math.LegacyNewDecFromInt(val.Tokens).Equal(val.DelegatorShares))
	}
}

// target computes the property's target stake of validator v from the state description.
func (s *rebState) target(v int) math.LegacyDec {
	native := int64(0)
	for u := 0; u < s.NVals; u++ {
		if s.Bonded[u] {
			native += s.Native[u]
		}
	}
	exp := math.LegacyZeroDec()
	for a := range s.Weights {
		if !s.Started[a] {
			continue
		}
		bondedShares := s.TVS[a]
		for u := 0; u < s.NVals; u++ {
			if !s.Bonded[u] {
				bondedShares = bondedShares.Sub(s.VS[a][u])
			}
		}
		if s.VS[a][v].IsPositive() && bondedShares.IsPositive() {
			exp = exp.Add(s.VS[a][v].Quo(bondedShares).Mul(s.Weights[a].MulInt(math.NewInt(native))))
		}
	}
	return exp
}

// H_C10_target: after RebalanceBondTokenWeights every bonded validator's alliance-minted stake
// is within one base unit of sum_a w_a * nativeBonded * valShares/bondedShares over started
// assets; unbonded / unbonding / jailed validators are neither counted nor adjusted.
func H_C10_target() {
	id := "C10.target"
	nThird := 2
	if nd.Thorough() {
		nThird = 4
	}
	third := nd.Choice("third", nThird)
	curK := nd.Choice("current", 3)
	second := nd.Choice("second", 3)
	zeroV := nd.Choice("zero", 3) - 1
	s := buildRebZ(third, curK, second, zeroV)
	e := s.E
	var err error
	nd.Reach(id)
	if !NoPanic(id, func() { err = e.K.RebalanceBondTokenWeights(e.Ctx, e.K.GetAllAssets(e.Ctx)) }) {
		return
	}
	nd.Assert(id+".ok", err == nil)
	if err != nil {
		return
	}
	one := math.LegacyOneDec()
	rateOne(id, e, s.NVals)
	for v := 0; v < s.NVals; v++ {
		got := moduleStake(e, v)
		if !s.Bonded[v] {
			nd.Assert(id+".skip", got.Equal(math.LegacyNewDec(s.Cur[v])))
			continue
		}
		diff := s.target(v).Sub(got)
		nd.Assert(id+".stake", nd.And(diff.LT(one), diff.GT(one.Neg())))
	}
}

// H_C10_trigger: every event that changes native stake, alliance stake, bond status, weights or
// slashes leaves a rebalance request behind by the end of the transaction.
func H_C10_trigger() {
	id := "C10.trigger"
	ev := nd.Choice("event", 15)
	warm := nd.Choice("warmup", 2) // the asset may still be in its warm-up period: the request must be queued all the same
	st := Build([]Pos{{0, 0, 0}, {1, 1, 0}}, Opts{Started: warm})
	e := st.E
	hooks := e.K.StakingHooks()
	native := Dels[1] // a native (non-alliance) staker
	e.Bank.Fund(native, env.BondDenom, math.NewInt(1000000))
	e.Stk.SetDelegationRaw(native, Vals[1], stakingDelegation(native, Vals[1], math.LegacyNewDec(0)))
	v1, _ := e.Stk.GetValidator(e.Ctx, Vals[1])
	// give the native staker a real delegation of 1000 on validator 1 (exchange rate 1)
	v1.Tokens = v1.Tokens.Add(math.NewInt(1000))
	v1.DelegatorShares = v1.DelegatorShares.Add(math.LegacyNewDec(1000))
	e.Stk.AddValidator(v1)
	e.Stk.SetDelegationRaw(native, Vals[1], stakingDelegation(native, Vals[1], math.LegacyNewDec(1000)))
	e.Bank.Fund(e.Ak.GetModuleAddress(stakingtypes.BondedPoolName), env.BondDenom, math.NewInt(1000))
	e.K.ConsumeAssetRebalanceEvent(e.Ctx)
	var err error
	nd.Reach(id)
	// panic-freedom of the operations themselves is C05/C08's subject
	ok := !Caught(func() {
		switch ev {
		case 0:
			err = hooks.AfterValidatorBonded(e.Ctx, nil, Vals[0])
		case 1:
			err = hooks.AfterValidatorBeginUnbonding(e.Ctx, nil, Vals[0])
		case 2:
			err = hooks.AfterValidatorRemoved(e.Ctx, nil, Vals[0])
		case 3:
			err = hooks.BeforeValidatorSlashed(e.Ctx, Vals[0], nd.DecRange("fraction", "0.000000000000000001", "1"))
		case 4: // native delegation to an existing position
			val, _ := e.Stk.GetValidator(e.Ctx, Vals[1])
			_, err = e.Stk.Delegate(e.Ctx, native, nd.IntRange("namt", "1", "1000000"), stakingtypes.Unbonded, val, true)
		case 5: // native delegation creating a position
			val, _ := e.Stk.GetValidator(e.Ctx, Vals[0])
			_, err = e.Stk.Delegate(e.Ctx, native, nd.IntRange("namt", "1", "1000000"), stakingtypes.Unbonded, val, true)
		case 6: // partial native undelegation
			_, err = e.Stk.Unbond(e.Ctx, native, Vals[1], math.LegacyNewDec(400))
		case 7: // FULL native undelegation
			nd.Tag("native-full-undelegation")
			_, err = e.Stk.Unbond(e.Ctx, native, Vals[1], math.LegacyNewDec(1000))
		case 8:
			_, err = e.K.Delegate(e.Ctx, Dels[0], AV(e, Vals[0]), sdk.NewCoin(Denoms[0], nd.IntRange("amt", "1", Pow30)))
		case 9:
			_, err = e.K.Undelegate(e.Ctx, Dels[0], AV(e, Vals[0]), sdk.NewCoin(Denoms[0], nd.IntRange("amt", "1", Pow30)))
		case 10:
			_, err = e.K.Redelegate(e.Ctx, Dels[0], AV(e, Vals[0]), AV(e, Vals[1]), sdk.NewCoin(Denoms[0], nd.IntRange("amt", "1", Pow30)))
		case 12: // a validator that x/alliance never touched (no alliance record) enters the active set: native bonded stake grows
			err = hooks.AfterValidatorBonded(e.Ctx, nil, Vals[2])
		case 13:
			err = hooks.AfterValidatorBeginUnbonding(e.Ctx, nil, Vals[2])
		case 14:
			err = hooks.AfterValidatorRemoved(e.Ctx, nil, Vals[2])
		case 11: // governance changes the weight
			a, _ := e.K.GetAssetByDenom(e.Ctx, Denoms[0])
			nw := nd.DecRange("neww", "0", "10")
			nd.Assume(!nw.Equal(a.RewardWeight))
			ms := keeper.NewMsgServerImpl(e.K)
			_, err = ms.UpdateAlliance(e.Ctx, &types.MsgUpdateAlliance{Authority: e.Authority, Denom: Denoms[0], RewardWeight: nw,
				TakeRate: a.TakeRate, RewardChangeRate: a.RewardChangeRate, RewardChangeInterval: a.RewardChangeInterval, RewardWeightRange: a.RewardWeightRange})
		}
	})
	if !ok || err != nil {
		return
	}
	flag, _ := e.Store.Has(types.AssetRebalanceQueueKey)
	nd.Assert(id, flag)
}

// H_C10_consume: EndBlocker consumes the request and rebalances; assets in warm-up re-queue it.
func H_C10_consume() {
	id := "C10.consume"
	second := nd.Choice("second", 3)
	decay := nd.Choice("decay", 2) == 1
	s := buildReb(0, 1, second)
	e := s.E
	_ = e.K.QueueAssetRebalanceEvent(e.Ctx)
	if decay {
		// a scheduled reward-weight decay of asset 0 fires in this very block: the rebalance at the end of
		// the block must already use the NEW weight
		a0, _ := e.K.GetAssetByDenom(e.Ctx, Denoms[0])
		a0.RewardChangeRate = math.LegacyNewDecWithPrec(5, 1)
		a0.RewardChangeInterval = time.Hour
		a0.LastRewardChangeTime = s.T0.Add(-time.Hour)
		a0.RewardWeightRange = types.RewardWeightRange{Min: math.LegacyZeroDec(), Max: math.LegacyNewDec(10)}
		_ = e.K.SetAsset(e.Ctx, a0)
		if s.Started[0] {
			s.Weights[0] = s.Weights[0].Mul(a0.RewardChangeRate)
		}
	}
	var err error
	nd.Reach(id)
	if !NoPanic(id, func() { err = endBlock(e) }) {
		return
	}
	nd.Assert(id+".ok", err == nil)
	// the request was consumed; it is queued again when an asset is still in warm-up (and, by the
	// module's own staking hook, whenever the rebalance itself changed stake - harmless)
	flag, _ := e.Store.Has(types.AssetRebalanceQueueKey)
	if second == 2 {
		nd.Assert(id+".requeue", flag)
	}
	one := math.LegacyOneDec()
	for v := 0; v < s.NVals; v++ {
		diff := s.target(v).Sub(moduleStake(e, v))
		nd.Assert(id+".stake", nd.And(diff.LT(one), diff.GT(one.Neg())))
	}
}
