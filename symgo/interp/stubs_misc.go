package interp

// Stubs for time, time bytes, bytes, codec, errors, events, sorting, addresses, context.

import (
	"fmt"
	"go/token"
	"go/types"
	"math/big"
	"regexp"
	"strings"
	"time"

	"golang.org/x/tools/go/ssa"

	"symgo/smt"
)

const sdkTypes = "github.com/cosmos/cosmos-sdk/types"
const sortableTimeFormat = "2006-01-02T15:04:05.000000000"

func (fr *frame) timeT(v value) *smt.Term {
	t := v.(TimeV)
	if t.T == nil {
		return fr.ctx().Int(zeroTimeNS)
	}
	return t.T
}

func nilErr() value { return iface{} }

// zeroResults returns zero values for all results of fn (used for unknown externals during init).
func zeroResults(fn *ssa.Function) value {
	res := fn.Signature.Results()
	switch res.Len() {
	case 0:
		return nil
	case 1:
		return zero(res.At(0).Type())
	}
	t := make(tuple, res.Len())
	for i := range t {
		t[i] = zero(res.At(i).Type())
	}
	return t
}

var maxDur = new(big.Int).SetInt64(1<<63 - 1)
var minDur = new(big.Int).SetInt64(-1 << 63)

var denomRe = regexp.MustCompile(`^[a-zA-Z][a-zA-Z0-9/:._-]{2,127}$`)

func byteSliceOfString(s string) []value {
	out := make([]value, len(s))
	for i := 0; i < len(s); i++ {
		out[i] = s[i]
	}
	return out
}

func concreteBytes(b []value) ([]byte, bool) {
	out := make([]byte, len(b))
	for i, e := range b {
		u, ok := e.(uint8)
		if !ok {
			return nil, false
		}
		out[i] = u
	}
	return out, true
}

// timeGroupAt: is b[p:] the start of a full symbolic time group?
func timeGroupAt(b []value, p int) (*smt.Term, bool) {
	tb, ok := b[p].(TimeByte)
	if !ok || tb.I != 0 || p+timeBytesLen > len(b) {
		return nil, false
	}
	inc := false
	for k := 1; k < timeBytesLen; k++ {
		x, ok := b[p+k].(TimeByte)
		if !ok || x.T != tb.T || x.I != k {
			return nil, false
		}
		inc = x.Inc
	}
	// order keys by 2*T (+1 when the last byte was incremented: sorts right after time T)
	c := tb.T.C
	t := c.Mul(c.Int64(2), tb.T)
	if inc {
		t = c.Add(t, c.Int64(1))
	}
	return t, true
}

// concreteTimeAt parses 29 concrete bytes at b[p:] as a sortable time.
func (fr *frame) concreteTimeAt(b []value, p int) (*smt.Term, bool) {
	if p+timeBytesLen > len(b) {
		return nil, false
	}
	cb, ok := concreteBytes(b[p : p+timeBytesLen])
	if !ok {
		return nil, false
	}
	t, err := time.Parse(sortableTimeFormat, string(cb))
	if err != nil {
		return nil, false
	}
	c := fr.ctx()
	return c.Mul(c.Int64(2), c.Int(timeToNS(t))), true
}

func timeToNS(t time.Time) *big.Int {
	ns := new(big.Int).Mul(big.NewInt(t.Unix()), big.NewInt(1000000000))
	return ns.Add(ns, big.NewInt(int64(t.Nanosecond())))
}

func nsToTime(ns *big.Int) (time.Time, bool) {
	q, r := new(big.Int).DivMod(ns, big.NewInt(1000000000), new(big.Int))
	if !q.IsInt64() {
		return time.Time{}, false
	}
	return time.Unix(q.Int64(), r.Int64()).UTC(), true
}

// compareBytes returns -1/0/+1 like bytes.Compare, forking on symbolic times.
// eqOnly: only equality matters (cheaper 2-way forks); then the result is 0 or 1.
func (fr *frame) compareBytes(a, b []value, eqOnly bool) int {
	c := fr.ctx()
	p := 0
	if eqOnly {
		// equality needs every byte equal: a concrete mismatch anywhere (or a length
		// mismatch) decides it without looking at symbolic time bytes, also when the
		// two sides are not aligned on a time group (denoms of different length).
		if len(a) != len(b) {
			return 1
		}
		for q := range a {
			ux, okx := a[q].(uint8)
			uy, oky := b[q].(uint8)
			if okx && oky && ux != uy {
				return 1
			}
		}
	}
	for p < len(a) && p < len(b) {
		x, y := a[p], b[p]
		ux, okx := x.(uint8)
		uy, oky := y.(uint8)
		if okx && oky {
			if ux != uy {
				if ux < uy {
					return -1
				}
				return 1
			}
			p++
			continue
		}
		if bx, ok := x.(Blob); ok {
			by, ok := y.(Blob)
			if !ok || !eqOnly {
				unsupported("ordering comparison on a marshalled message")
			}
			if !types.Identical(bx.T, by.T) {
				return 1
			}
			if bx.V == nil || by.V == nil {
				if bx.V == nil && by.V == nil {
					p++
					continue
				}
				return 1
			}
			if !fr.i.eng.Branch(fr.deepEqTerm(bx.T, bx.V, by.V), "marshalled messages equal?") {
				return 1
			}
			p++
			continue
		}
		// at least one side is a symbolic time byte
		var tx, ty *smt.Term
		var ok bool
		if tx, ok = timeGroupAt(a, p); !ok {
			if tx, ok = fr.concreteTimeAt(a, p); !ok {
				unsupported("byte comparison misaligned with a symbolic time (lhs)")
			}
		}
		if ty, ok = timeGroupAt(b, p); !ok {
			if ty, ok = fr.concreteTimeAt(b, p); !ok {
				unsupported("byte comparison misaligned with a symbolic time (rhs)")
			}
		}
		if eqOnly {
			if !fr.i.eng.Branch(c.Eq(tx, ty), "time bytes equal?") {
				return 1
			}
		} else {
			k := fr.i.eng.choose(3, []*smt.Term{c.Lt(tx, ty), c.Eq(tx, ty), c.Gt(tx, ty)}, "time bytes order")
			if k != 1 {
				return k - 1
			}
		}
		p += timeBytesLen
	}
	switch {
	case len(a) < len(b):
		return -1
	case len(a) > len(b):
		return 1
	}
	return 0
}

func (fr *frame) callValue(fn value, args ...value) value {
	return call(fr.i, fr, token.NoPos, fn, args)
}

// deepCopy copies a value of static type T following slices and pointers, with
// the normalisations a gogoproto round trip performs (A-codec): empty slices
// become nil, nil Int/Dec become zero.
func (fr *frame) deepCopy(T types.Type, v value, proto bool) value {
	switch atomicNamed(T) {
	case atomInt:
		if proto && v.(IntV).T == nil {
			return fr.intConst(new(big.Int))
		}
		return v
	case atomDec:
		if proto && v.(DecV).T == nil {
			return fr.decConst(new(big.Rat))
		}
		return v
	case atomTime:
		return v
	}
	switch U := T.Underlying().(type) {
	case *types.Struct:
		s := v.(structure)
		out := make(structure, len(s))
		for k := range s {
			out[k] = fr.deepCopy(U.Field(k).Type(), s[k], proto)
		}
		return out
	case *types.Array:
		s := v.(array)
		out := make(array, len(s))
		for k := range s {
			out[k] = fr.deepCopy(U.Elem(), s[k], proto)
		}
		return out
	case *types.Slice:
		s := v.([]value)
		if s == nil || (proto && len(s) == 0) {
			return []value(nil)
		}
		out := make([]value, len(s))
		for k := range s {
			out[k] = fr.deepCopy(U.Elem(), s[k], proto)
		}
		return out
	case *types.Pointer:
		p := v.(*value)
		if p == nil {
			return (*value)(nil)
		}
		nv := fr.deepCopy(U.Elem(), *p, proto)
		return &nv
	case *types.Basic:
		return v
	case *types.Interface:
		it := v.(iface)
		if it.t == nil {
			return it
		}
		unsupported("deep copy of interface-typed field holding %s", it.t)
	case *types.Map:
		unsupported("deep copy of map")
	}
	unsupported("deep copy of %s", T)
	return nil
}

func init() {
	T := "(time.Time)."
	reg(T+"Add", func(fr *frame, a []value) value {
		c := fr.ctx()
		return TimeV{c.Add(fr.timeT(a[0]), fr.i.termOfInt(a[1]))}
	})
	reg(T+"Sub", func(fr *frame, a []value) value {
		c := fr.ctx()
		d := c.Sub(fr.timeT(a[0]), fr.timeT(a[1]))
		// saturates like the standard library
		mx, mn := c.Int(maxDur), c.Int(minDur)
		d = c.Ite(c.Gt(d, mx), mx, c.Ite(c.Lt(d, mn), mn, d))
		return mkIntT(types.Int64, d)
	})
	reg(T+"After", func(fr *frame, a []value) value {
		c := fr.ctx()
		return boolVal(c, c.Gt(fr.timeT(a[0]), fr.timeT(a[1])))
	})
	reg(T+"Before", func(fr *frame, a []value) value {
		c := fr.ctx()
		return boolVal(c, c.Lt(fr.timeT(a[0]), fr.timeT(a[1])))
	})
	reg(T+"Equal", func(fr *frame, a []value) value {
		c := fr.ctx()
		return boolVal(c, c.Eq(fr.timeT(a[0]), fr.timeT(a[1])))
	})
	reg(T+"Compare", func(fr *frame, a []value) value {
		c := fr.ctx()
		x, y := fr.timeT(a[0]), fr.timeT(a[1])
		if x.IsConst() && y.IsConst() {
			xv, _ := x.ConstInt()
			yv, _ := y.ConstInt()
			return xv.Cmp(yv)
		}
		return fr.i.eng.choose(3, []*smt.Term{c.Lt(x, y), c.Eq(x, y), c.Gt(x, y)}, "Time.Compare") - 1
	})
	reg(T+"IsZero", func(fr *frame, a []value) value {
		c := fr.ctx()
		return boolVal(c, c.Eq(fr.timeT(a[0]), c.Int(zeroTimeNS)))
	})
	ident := func(fr *frame, a []value) value { return TimeV{fr.timeT(a[0])} }
	reg(T+"UTC", ident)
	reg(T+"Round", ident) // only Round(0) (strip monotonic clock) occurs
	reg(T+"Truncate", ident)
	reg(T+"Local", ident)
	reg(T+"Unix", func(fr *frame, a []value) value {
		c := fr.ctx()
		return mkIntT(types.Int64, c.EDiv(fr.timeT(a[0]), c.Int64(1000000000)))
	})
	reg(T+"UnixNano", func(fr *frame, a []value) value {
		return mkIntT(types.Int64, fr.timeT(a[0]))
	})
	reg(T+"Nanosecond", func(fr *frame, a []value) value {
		c := fr.ctx()
		return mkIntT(types.Int, c.EMod(fr.timeT(a[0]), c.Int64(1000000000)))
	})
	reg(T+"String", func(fr *frame, a []value) value { return "<time>" })
	reg(T+"Format", func(fr *frame, a []value) value { return "<time>" })
	reg("time.Unix", func(fr *frame, a []value) value {
		c := fr.ctx()
		return TimeV{c.Add(c.Mul(c.Int64(1000000000), fr.i.termOfInt(a[0])), fr.i.termOfInt(a[1]))}
	})
	reg("time.Now", func(fr *frame, a []value) value {
		fr.i.eng.NondetSites["time.Now"]++
		return TimeV{fr.ctx().Var(fr.i.eng.FreshName("wallclock"), smt.SInt)}
	})
	reg("(time.Duration).String", func(fr *frame, a []value) value { return "<duration>" })
	durFloat := func(unit int64) stubFn {
		return func(fr *frame, a []value) value {
			if b, ok := bigOfInt(a[0]); ok {
				f, _ := new(big.Rat).SetFrac(b, big.NewInt(unit)).Float64()
				return f
			}
			c := fr.ctx()
			return SymFloat{c.Mul(c.Real(big.NewRat(1, unit)), c.ToReal(fr.i.termOfInt(a[0])))}
		}
	}
	reg("(time.Duration).Seconds", durFloat(1000000000))
	reg("(time.Duration).Minutes", durFloat(60*1000000000))
	reg("(time.Duration).Hours", durFloat(3600*1000000000))
	reg("(time.Duration).Milliseconds", func(fr *frame, a []value) value {
		c := fr.ctx()
		return mkIntT(types.Int64, c.TDiv(fr.i.termOfInt(a[0]), c.Int64(1000000)))
	})
	reg("(time.Duration).Nanoseconds", func(fr *frame, a []value) value { return mkIntT(types.Int64, fr.i.termOfInt(a[0])) })

	// ---- sdk time bytes ----
	reg(sdkTypes+".FormatTimeBytes", func(fr *frame, a []value) value {
		t := fr.timeT(a[0])
		if v, ok := t.ConstInt(); ok {
			tm, ok := nsToTime(v)
			if !ok {
				unsupported("FormatTimeBytes: time out of range")
			}
			return byteSliceOfString(tm.Format(sortableTimeFormat))
		}
		out := make([]value, timeBytesLen)
		for k := range out {
			out[k] = TimeByte{T: t, I: k}
		}
		return out
	})
	reg(sdkTypes+".FormatTimeString", func(fr *frame, a []value) value {
		t := fr.timeT(a[0])
		if v, ok := t.ConstInt(); ok {
			if tm, ok := nsToTime(v); ok {
				return tm.Format(sortableTimeFormat)
			}
		}
		unsupported("FormatTimeString of a symbolic time")
		return nil
	})
	reg(sdkTypes+".ParseTimeBytes", func(fr *frame, a []value) value {
		b := a[0].([]value)
		if len(b) == timeBytesLen {
			if tb, ok := b[0].(TimeByte); ok {
				if _, ok := timeGroupAt(b, 0); ok {
					if last := b[timeBytesLen-1].(TimeByte); last.Inc {
						unsupported("ParseTimeBytes of an incremented (prefix-end) time")
					}
					return tuple{TimeV{tb.T}, nilErr()}
				}
			}
			if cb, ok := concreteBytes(b); ok {
				if tm, err := time.Parse(sortableTimeFormat, string(cb)); err == nil {
					return tuple{TimeV{fr.ctx().Int(timeToNS(tm))}, nilErr()}
				}
			}
		}
		if _, ok := concreteBytes(b); ok {
			return tuple{TimeV{}, fr.i.opaqueErr("ParseTimeBytes: invalid time")}
		}
		unsupported("ParseTimeBytes on a partially symbolic byte string (len %d)", len(b))
		return nil
	})

	// ---- bytes ----
	reg("bytes.Compare", func(fr *frame, a []value) value {
		return fr.compareBytes(a[0].([]value), a[1].([]value), false)
	})
	stubs["bytes.Equal"] = func(fr *frame, a []value) value {
		x, y := a[0].([]value), a[1].([]value)
		if len(x) != len(y) {
			return false
		}
		return fr.compareBytes(x, y, true) == 0
	}
	reg("bytes.HasPrefix", func(fr *frame, a []value) value {
		s, p := a[0].([]value), a[1].([]value)
		if len(s) < len(p) {
			return false
		}
		return fr.compareBytes(s[:len(p)], p, true) == 0
	})
	reg("bytes.HasSuffix", func(fr *frame, a []value) value {
		s, p := a[0].([]value), a[1].([]value)
		if len(s) < len(p) {
			return false
		}
		return fr.compareBytes(s[len(s)-len(p):], p, true) == 0
	})

	// ---- strings (concrete) ----
	reg("strings.Contains", func(fr *frame, a []value) value { return strings.Contains(a[0].(string), a[1].(string)) })
	reg("strings.HasPrefix", func(fr *frame, a []value) value { return strings.HasPrefix(a[0].(string), a[1].(string)) })
	reg("strings.HasSuffix", func(fr *frame, a []value) value { return strings.HasSuffix(a[0].(string), a[1].(string)) })
	reg("strings.TrimSpace", func(fr *frame, a []value) value { return strings.TrimSpace(a[0].(string)) })
	reg("strings.ToUpper", func(fr *frame, a []value) value { return strings.ToUpper(a[0].(string)) })
	reg("strings.Compare", func(fr *frame, a []value) value { return strings.Compare(a[0].(string), a[1].(string)) })

	// ---- denoms ----
	reg(sdkTypes+".ValidateDenom", func(fr *frame, a []value) value {
		if denomRe.MatchString(a[0].(string)) {
			return nilErr()
		}
		return fr.i.opaqueErr("invalid denom: " + a[0].(string))
	})

	// ---- errors / formatting ----
	errOf := func(fr *frame, msg string) value { return fr.i.opaqueErr(msg) }
	reg("fmt.Errorf", func(fr *frame, a []value) value { return errOf(fr, a[0].(string)) })
	reg("fmt.Sprintf", func(fr *frame, a []value) value { return a[0].(string) })
	stubs["fmt.Sprint"] = func(fr *frame, a []value) value { return "<sprint>" }
	reg("fmt.Sprintln", func(fr *frame, a []value) value { return "<sprint>" })
	reg("fmt.Println", func(fr *frame, a []value) value { return tuple{0, nilErr()} })
	reg("fmt.Printf", func(fr *frame, a []value) value { return tuple{0, nilErr()} })
	reg("google.golang.org/grpc/status.Errorf", func(fr *frame, a []value) value { return errOf(fr, "status: "+a[1].(string)) })
	reg("google.golang.org/grpc/status.Error", func(fr *frame, a []value) value { return errOf(fr, "status: "+a[1].(string)) })
	reg("errors.Is", func(fr *frame, a []value) value {
		x, y := a[0].(iface), a[1].(iface)
		if x.t == nil || y.t == nil {
			return x.t == nil && y.t == nil
		}
		return fr.errMsg(x) == fr.errMsg(y) || strings.HasPrefix(fr.errMsg(x), fr.errMsg(y)+": ")
	})
	const cerr = "cosmossdk.io/errors"
	reg(cerr+".Register", func(fr *frame, a []value) value {
		// *errors.Error{codespace, code, desc, grpcCode}
		fn := fr.i.prog.ImportedPackage(cerr)
		et := fn.Type("Error").Type()
		v := zero(et)
		st := v.(structure)
		st[0], st[2] = a[0], a[2]
		st[1] = a[1]
		return &v
	})
	reg(cerr+".RegisterWithGRPCCode", func(fr *frame, a []value) value {
		fn := fr.i.prog.ImportedPackage(cerr)
		et := fn.Type("Error").Type()
		v := zero(et)
		st := v.(structure)
		st[0], st[1], st[2] = a[0], a[1], a[3]
		return &v
	})
	wrap := func(fr *frame, inner value, desc string) value {
		it := inner.(iface)
		if it.t == nil {
			return nilErr()
		}
		return errOf(fr, fr.errMsg(it)+": "+desc)
	}
	reg(cerr+".Wrap", func(fr *frame, a []value) value { return wrap(fr, a[0], a[1].(string)) })
	reg(cerr+".Wrapf", func(fr *frame, a []value) value { return wrap(fr, a[0], a[1].(string)) })
	errPtrIface := func(fr *frame, p value) value {
		pkg := fr.i.prog.ImportedPackage(cerr)
		et := pkg.Type("Error").Type()
		return iface{t: types.NewPointer(et), v: p}
	}
	reg("(*"+cerr+".Error).Wrap", func(fr *frame, a []value) value { return wrap(fr, errPtrIface(fr, a[0]), a[1].(string)) })
	reg("(*"+cerr+".Error).Wrapf", func(fr *frame, a []value) value { return wrap(fr, errPtrIface(fr, a[0]), a[1].(string)) })
	reg("(*"+cerr+".Error).Error", func(fr *frame, a []value) value {
		p := a[0].(*value)
		if p == nil {
			return "<nil>"
		}
		return (*p).(structure)[2]
	})
	reg("(*"+cerr+".Error).Is", func(fr *frame, a []value) value {
		return fr.errMsg(errPtrIface(fr, a[0]).(iface)) == fr.errMsg(a[1].(iface))
	})

	// ---- events, telemetry, logging ----
	reg("(*"+sdkTypes+".EventManager).EmitTypedEvent", func(fr *frame, a []value) value {
		fr.i.eng.Events++
		return nilErr()
	})
	reg("(*"+sdkTypes+".EventManager).EmitTypedEvents", func(fr *frame, a []value) value { return nilErr() })
	reg("(*"+sdkTypes+".EventManager).EmitEvent", func(fr *frame, a []value) value { return nil })
	reg("(*"+sdkTypes+".EventManager).EmitEvents", func(fr *frame, a []value) value { return nil })
	reg("github.com/cosmos/cosmos-sdk/telemetry.ModuleMeasureSince", func(fr *frame, a []value) value { return nil })
	reg("github.com/cosmos/cosmos-sdk/telemetry.IncrCounter", func(fr *frame, a []value) value { return nil })
	reg("github.com/cosmos/cosmos-sdk/telemetry.SetGaugeWithLabels", func(fr *frame, a []value) value { return nil })
	reg("github.com/cosmos/cosmos-sdk/telemetry.MeasureSince", func(fr *frame, a []value) value { return nil })

	// ---- context ----
	reg("("+sdkTypes+".Context).BlockHeader", func(fr *frame, a []value) value {
		// Context.header is a cmtproto.Header value field; return a copy
		ctxT := fr.i.prog.ImportedPackage(sdkTypes).Type("Context").Type()
		st := ctxT.Underlying().(*types.Struct)
		for k := 0; k < st.NumFields(); k++ {
			if st.Field(k).Name() == "header" {
				cell := a[0].(structure)[k]
				return load(st.Field(k).Type(), &cell)
			}
		}
		panic("Context.header not found")
	})

	// ---- sorting ----
	sortSlice := func(fr *frame, a []value) value {
		// sort.Slice(x any, less func(i, j int) bool): insertion sort (stable)
		it := a[0].(iface)
		s, ok := it.v.([]value)
		if !ok {
			unsupported("sort.Slice on %T", it.v)
		}
		less := a[1]
		elemT := it.t.Underlying().(*types.Slice).Elem()
		for i := 1; i < len(s); i++ {
			for j := i; j > 0; j-- {
				r := fr.callValue(less, j, j-1)
				if !fr.symCond(r, token.NoPos) {
					break
				}
				tmp := load(elemT, &s[j])
				store(elemT, &s[j], load(elemT, &s[j-1]))
				store(elemT, &s[j-1], tmp)
			}
		}
		return nil
	}
	reg("sort.Slice", sortSlice)
	reg("sort.SliceStable", sortSlice)

	// ---- addresses (real bech32, HRPs of the default sdk config) ----
	fromBech := func(hrp string) stubFn {
		return func(fr *frame, a []value) value {
			s := a[0].(string)
			if len(strings.TrimSpace(s)) == 0 {
				return tuple{[]value(nil), fr.i.opaqueErr("empty address string is not allowed")}
			}
			h, data, err := bech32Decode(s)
			if err != nil {
				return tuple{[]value(nil), fr.i.opaqueErr("decoding bech32 failed")}
			}
			if h != hrp {
				return tuple{[]value(nil), fr.i.opaqueErr("invalid Bech32 prefix")}
			}
			if len(data) == 0 || len(data) > 255 {
				return tuple{[]value(nil), fr.i.opaqueErr("address length invalid")}
			}
			out := make([]value, len(data))
			for k, b := range data {
				out[k] = b
			}
			return tuple{out, nilErr()}
		}
	}
	reg(sdkTypes+".AccAddressFromBech32", fromBech("cosmos"))
	reg(sdkTypes+".ValAddressFromBech32", fromBech("cosmosvaloper"))
	reg(sdkTypes+".MustAccAddressFromBech32", func(fr *frame, a []value) value {
		r := fromBech("cosmos")(fr, a).(tuple)
		if r[1].(iface).t != nil {
			panic(targetPanic{r[1]})
		}
		return r[0]
	})
	toBech := func(hrp string) stubFn {
		return func(fr *frame, a []value) value {
			bs, ok := concreteBytes(a[0].([]value))
			if !ok {
				unsupported("address String() on symbolic bytes")
			}
			if len(bs) == 0 {
				return ""
			}
			return bech32Encode(hrp, bs)
		}
	}
	reg("("+sdkTypes+".AccAddress).String", toBech("cosmos"))
	reg("("+sdkTypes+".ValAddress).String", toBech("cosmosvaloper"))
	reg(sdkTypes+".VerifyAddressFormat", func(fr *frame, a []value) value {
		n := len(a[0].([]value))
		if n == 0 || n > 255 {
			return fr.i.opaqueErr("address length invalid")
		}
		return nilErr()
	})
}

// errMsg extracts a stable message from the error kinds the stubs produce.
func (fr *frame) errMsg(it iface) string {
	if it.t == nil {
		return "<nil>"
	}
	if types.Identical(it.t, fr.i.P.errType) {
		return it.v.(structure)[0].(string)
	}
	if p, ok := it.v.(*value); ok && p != nil {
		if st, ok := (*p).(structure); ok && len(st) >= 3 {
			if s, ok := st[2].(string); ok && strings.HasSuffix(it.t.String(), "errors.Error") {
				return s
			}
		}
	}
	return "<" + it.t.String() + ">"
}

var _ = fmt.Sprint

// deepEqTerm: structural equality of two values of static type T as a Bool term.
func (fr *frame) deepEqTerm(T types.Type, x, y value) *smt.Term {
	c := fr.ctx()
	switch atomicNamed(T) {
	case atomInt, atomDec:
		tx, ty := atomTerm(x), atomTerm(y)
		if tx == nil || ty == nil {
			return c.Bool(tx == nil && ty == nil)
		}
		return c.Eq(tx, ty)
	case atomTime:
		return c.Eq(fr.timeT(x), fr.timeT(y))
	}
	switch U := T.Underlying().(type) {
	case *types.Struct:
		a, b := x.(structure), y.(structure)
		var ts []*smt.Term
		for k := range a {
			ts = append(ts, fr.deepEqTerm(U.Field(k).Type(), a[k], b[k]))
		}
		return c.And(ts...)
	case *types.Array:
		a, b := x.(array), y.(array)
		var ts []*smt.Term
		for k := range a {
			ts = append(ts, fr.deepEqTerm(U.Elem(), a[k], b[k]))
		}
		return c.And(ts...)
	case *types.Slice:
		a, b := x.([]value), y.([]value)
		if len(a) != len(b) {
			return c.False()
		}
		var ts []*smt.Term
		for k := range a {
			ts = append(ts, fr.deepEqTerm(U.Elem(), a[k], b[k]))
		}
		return c.And(ts...)
	case *types.Pointer:
		a, b := x.(*value), y.(*value)
		if a == nil || b == nil {
			return c.Bool(a == nil && b == nil)
		}
		return fr.deepEqTerm(U.Elem(), *a, *b)
	case *types.Basic:
		switch xv := x.(type) {
		case SymBool:
			return c.Eq(xv.T, fr.i.termOfBool(y))
		case SymInt:
			return c.Eq(xv.T, fr.i.termOfInt(y))
		case bool:
			if sb, ok := y.(SymBool); ok {
				return c.Eq(c.Bool(xv), sb.T)
			}
			return c.Bool(xv == y.(bool))
		case string:
			return c.Bool(xv == y.(string))
		}
		if si, ok := y.(SymInt); ok {
			return c.Eq(fr.i.termOfInt(x), si.T)
		}
		return c.Bool(x == y)
	}
	unsupported("deep equality of %s", T)
	return nil
}

func init() {
	// A-json: encoding/json round-trips plain response structs (deep copy through a blob)
	reg("encoding/json.Marshal", func(fr *frame, a []value) value {
		it := a[0].(iface)
		if it.t == nil {
			return tuple{byteSliceOfString("null"), nilErr()}
		}
		T, v := it.t, it.v
		if pt, ok := T.Underlying().(*types.Pointer); ok {
			p := v.(*value)
			if p == nil {
				return tuple{byteSliceOfString("null"), nilErr()}
			}
			T, v = pt.Elem(), *p
		}
		return tuple{[]value{Blob{T: T, V: fr.deepCopy(T, v, false)}}, nilErr()}
	})
	reg("encoding/json.Unmarshal", func(fr *frame, a []value) value {
		b := a[0].([]value)
		it := a[1].(iface)
		pt, ok := it.t.Underlying().(*types.Pointer)
		if !ok || len(b) != 1 {
			unsupported("json.Unmarshal of raw bytes")
		}
		blob, ok := b[0].(Blob)
		if !ok || !types.Identical(blob.T, pt.Elem()) {
			unsupported("json.Unmarshal into a different type than was marshalled")
		}
		store(pt.Elem(), it.v.(*value), fr.deepCopy(pt.Elem(), blob.V, false))
		return nilErr()
	})
	reg("net/url.QueryUnescape", func(fr *frame, a []value) value {
		s := a[0].(string)
		if strings.ContainsAny(s, "%+") {
			unsupported("url.QueryUnescape of an escaped string")
		}
		return tuple{s, nilErr()}
	})
}
