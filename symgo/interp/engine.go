package interp

// Engine: path exploration by re-execution with a decision stack (DFS), path
// condition mirrored in one persistent solver process (push/pop), obligations.

import (
	"fmt"
	"math/big"
	"os"
	"sort"
	"strconv"
	"strings"
	"time"

	"golang.org/x/tools/go/ssa"

	"symgo/smt"
)

// abortPath is the panic value used to end a path from inside the engine. It is
// never recoverable by the target program.
type abortPath struct {
	kind string // "infeasible", "unsupported", "budget", "done"
	msg  string
}

func (a abortPath) String() string { return a.kind + ": " + a.msg }

type decision struct {
	n     int
	cur   int
	feas  []bool // alternatives still to explore (true = feasible or unknown)
	conds []*smt.Term
	label string
}

var ufWindowDefault = func() int {
	if v, err := strconv.Atoi(os.Getenv("SYMGO_UFWIN")); err == nil && v >= 0 {
		return v
	}
	return 0
}()

type rangeDecl struct {
	lo, hi *big.Rat
	cons   *smt.Term
}

type Verdict int

const (
	VHolds Verdict = iota
	VViolated
	VUnknown
)

// ObligationResult accumulates over all paths of a task.
type ObligationResult struct {
	ID                                      string
	Paths                                   int // paths on which the assertion was reached
	Unsat                                   int
	Sat                                     int
	Unknown                                 int
	KnownSat                                int // failures attributed to a listed known finding
	KnownUndecided                          int // solver unknown inside the region of a listed finding (not claimed there)
	AbstractSat, ExactRefuted, AbstractOnly int
	LongTries                               int
	Trivial                                 int // assertion was a concrete `true`
	Witnesses                               []*Witness
	SolverMS                                int64
	Arith                                   string
}

type Witness struct {
	Harness    string            `json:"harness"`
	Obligation string            `json:"obligation"`
	Kind       string            `json:"kind"` // "violation" | "reach" | "panic"
	Vars       map[string]string `json:"vars"`
	Decisions  []int             `json:"decisions"`
	Note       string            `json:"note,omitempty"`
	Mode       string            `json:"mode"`
	PCSize     int               `json:"pc_size"`
	Expect     map[string]string `json:"expect,omitempty"` // observables predicted by the symbolic run
	Tags       []string          `json:"tags,omitempty"`
	Thorough   bool              `json:"thorough"`
}

type PathSummary struct {
	Decisions string `json:"decisions"`
	PCSize    int    `json:"pc_size"`
	End       string `json:"end"`
	Steps     int64  `json:"steps"`
}

type Limits struct {
	MaxPaths     int
	MaxSteps     int64
	BranchTO     time.Duration
	AssertTO     time.Duration
	ExactTO      time.Duration
	MaxPower     int
	TaskDeadline time.Time
}

type Engine struct {
	Ctx     *smt.Ctx
	S       *smt.Solver
	SX      *smt.Solver // exact solver used to confirm counterexamples of the abstraction
	XStats  smt.Stats
	Harness string
	Lim     Limits

	decs []decision
	pos  int
	pc   [][]*smt.Term
	cur  []int // replay cursors per level

	fresh int

	// results
	Obl            map[string]*ObligationResult
	Reached        map[string]int
	ReachWit       map[string]*Witness
	Paths          int
	Branches       int
	Aborted        map[string]int // reason -> count  (unsupported, budget)
	Incomplete     []string
	Samples        []PathSummary
	Funcs          map[string]int64 // function -> instructions executed
	StubsHit       map[string]int
	steps          int64
	Expect         map[string]string
	choiceNames    []string
	choiceVals     map[string]int
	Panics         int
	NondetSites    map[string]int
	Notes          []string
	known          []KnownRegion
	KnownHits      map[string]int
	KnownWit       map[string]*Witness
	tags           []string
	traceCalls     bool
	reachTries     map[string]int
	crossDone      map[string]int
	Cross          map[string]int
	facts          map[*smt.Term]bool
	intTerms       []*smt.Term             // ideal mode: real-sorted terms known to be integer-valued
	truncOf        map[*smt.Term]*smt.Term // ideal mode: truncation is a function (same argument, same result)
	ceilOf         map[*smt.Term]*smt.Term // ideal mode: likewise for Dec.Ceil
	knownTries     map[string]int
	symStrings     map[string]*smt.Term // printed form of symbolic integers -> term (Int.String / NewIntFromString round trip)
	autoHints      []*smt.Term          // per path: rate-like inputs fixed to simple values (concrete-witness search only)
	autoNames      map[string]bool
	intVars        []*smt.Term // ideal mode: the real-sorted variables standing for integer inputs (nd.IntRange)
	exactNext      bool
	hints          []*smt.Term
	Probe          bool // probing run: no solver-backed obligations
	snap           interface{}
	snapCells      map[*ssa.Global]*value
	Forced         []int // forced alternatives for the leading pure choices (task splitting)
	OverflowChecks bool
	SymMapOrder    bool // C19: iteration order of maps in repository code is a symbolic permutation
	Thorough       bool
	Events         int
	Ranges         map[string]rangeDecl
	obsKeys        []string
	obsTerms       map[string]*smt.Term
}

// KnownRegion: a listed known finding. When an obligation fails and the failing
// path's tag set contains all Tags, the failure is attributed to the finding.
type KnownRegion struct {
	Property   string   `json:"property"`
	Obligation string   `json:"obligation"`
	Tags       []string `json:"tags"`
	What       string   `json:"what"`
}

func NewEngine(harness string, ideal bool, solverCmd []string, lim Limits) (*Engine, error) {
	ctx := smt.NewCtx()
	ctx.Ideal = ideal
	s, err := smt.NewSolver(ctx, solverCmd)
	if err != nil {
		return nil, err
	}
	if d := os.Getenv("SYMGO_DUMP"); d != "" {
		f, _ := os.Create(fmt.Sprintf("%s/%s.%d.main.smt2", d, harness, time.Now().UnixNano()))
		s.Log = f
	}
	return &Engine{
		Ctx: ctx, S: s, Harness: harness, Lim: lim,
		Obl: map[string]*ObligationResult{}, Reached: map[string]int{}, ReachWit: map[string]*Witness{},
		Aborted: map[string]int{}, Funcs: map[string]int64{}, StubsHit: map[string]int{},
		Ranges: map[string]rangeDecl{}, reachTries: map[string]int{}, knownTries: map[string]int{}, symStrings: map[string]*smt.Term{}, crossDone: map[string]int{}, Cross: map[string]int{}, NondetSites: map[string]int{}, KnownHits: map[string]int{}, KnownWit: map[string]*Witness{},
	}, nil
}

func (e *Engine) Mode() string {
	if e.Ctx.Ideal {
		return "ideal-Q"
	}
	if e.S != nil && e.S.Abstract {
		return "exact-Z (explored under the UF abstraction of nonlinear terms, counterexamples confirmed exactly)"
	}
	return "exact-Z"
}

func (e *Engine) depth() int { return e.pos }

// beginPath resets per-run cursors.
func (e *Engine) beginPath() {
	e.pos = 0
	e.fresh = 0
	e.steps = 0
	e.cur = make([]int, len(e.pc))
	for i := range e.cur {
		if i > 0 {
			e.cur[i] = 1 // element 0 of level i>0 is the decision's own condition
		}
	}
	e.Expect = map[string]string{}
	e.choiceVals = map[string]int{}
	e.choiceNames = nil
	e.tags = nil
	e.hints = nil
	e.facts = map[*smt.Term]bool{}
	e.intTerms = nil
	e.truncOf = map[*smt.Term]*smt.Term{}
	e.ceilOf = map[*smt.Term]*smt.Term{}
	e.intVars = nil
	e.autoHints = nil
	e.autoNames = map[string]bool{}
	e.OverflowChecks = false
	e.S.UFWindow = ufWindowDefault
	e.obsKeys = nil
	e.obsTerms = map[string]*smt.Term{}
}

func (e *Engine) rebuildSolver() {
	if err := e.S.Restart(); err != nil {
		panic(abortPath{"budget", "solver restart failed: " + err.Error()})
	}
	for lvl, cs := range e.pc {
		if lvl > 0 {
			e.S.Push()
		}
		for _, c := range cs {
			e.S.Assert(c)
		}
	}
}

func (e *Engine) check(to time.Duration, extra ...*smt.Term) smt.Result {
	r := e.S.CheckWith(to, extra...)
	if e.S.Dead {
		e.rebuildSolver()
		return smt.Unknown
	}
	return r
}

// addPC records (and asserts, unless replaying) a conjunct at the current depth.
func (e *Engine) addPC(t *smt.Term) (isNew bool) {
	d := e.pos
	if d >= len(e.pc) {
		panic("engine: pc level missing")
	}
	if e.cur[d] < len(e.pc[d]) {
		if e.pc[d][e.cur[d]] != t {
			panic(abortPath{"unsupported", fmt.Sprintf("non-deterministic re-execution at depth %d: %s vs %s", d, e.pc[d][e.cur[d]], t)})
		}
		e.cur[d]++
		return false
	}
	e.pc[d] = append(e.pc[d], t)
	e.cur[d]++
	e.S.Assert(t)
	return true
}

func (e *Engine) pcSize() int {
	n := 0
	for _, l := range e.pc {
		n += len(l)
	}
	return n
}

func (e *Engine) Assume(t *smt.Term) {
	if v, ok := t.ConstBool(); ok {
		if !v {
			panic(abortPath{"infeasible", "assume(false)"})
		}
		return
	}
	e.facts[t] = true
	if e.addPC(t) {
		if e.check(e.Lim.BranchTO) == smt.Unsat {
			panic(abortPath{"infeasible", "assumption contradicts path"})
		}
	}
}

// Branch decides a symbolic condition, forking when both sides are feasible.
func (e *Engine) Branch(cond *smt.Term, label string) bool {
	if v, ok := cond.ConstBool(); ok {
		return v
	}
	// a condition already decided on this path (same hash-consed term) is not decided again:
	// no solver query, no decision slot (deterministic: the cache depends only on the path so far)
	if v, ok := e.facts[cond]; ok {
		return v
	}
	if v, ok := e.facts[e.Ctx.Not(cond)]; ok {
		return !v
	}
	r := e.choose(2, []*smt.Term{e.Ctx.Not(cond), cond}, label) == 1
	e.facts[cond] = r
	return r
}

// Choice: n-way fork on caller-provided (mutually exclusive, exhaustive) conditions.
// conds[i]==nil means "no condition" (pure enumeration).
func (e *Engine) choose(n int, conds []*smt.Term, label string) int {
	if conds != nil {
		// an alternative already known to hold on this path: no decision, no query
		for i, c := range conds {
			if c != nil {
				if v, ok := e.facts[c]; ok && v {
					return i
				}
			}
		}
	}
	k := e.choose1(n, conds, label)
	if conds != nil {
		for i, c := range conds {
			if c != nil {
				e.facts[c] = i == k
			}
		}
	}
	return k
}

func (e *Engine) choose1(n int, conds []*smt.Term, label string) int {
	if e.pos < len(e.decs) {
		d := &e.decs[e.pos]
		if d.n != n {
			panic(abortPath{"unsupported", fmt.Sprintf("non-deterministic re-execution: decision %d arity %d vs %d (%s vs %s)", e.pos, d.n, n, d.label, label)})
		}
		e.pos++
		return d.cur
	}
	if !time.Now().Before(e.Lim.TaskDeadline) {
		panic(abortPath{"budget", "task deadline"})
	}
	// new decision
	d := decision{n: n, feas: make([]bool, n), conds: conds, label: label}
	first := -1
	nFeasKnown := 0
	forced := -1
	if conds == nil && len(e.decs) < len(e.Forced) {
		forced = e.Forced[len(e.decs)]
		if forced >= n {
			panic(abortPath{"unsupported", "forced choice out of range"})
		}
	}
	for i := 0; i < n; i++ {
		if forced >= 0 {
			d.feas[i] = i == forced
		} else if conds == nil || conds[i] == nil {
			d.feas[i] = true
		} else if v, ok := conds[i].ConstBool(); ok {
			d.feas[i] = v
		} else if i == n-1 && nFeasKnown == 0 {
			// all others infeasible and the path itself is feasible => this one is
			d.feas[i] = true
		} else {
			r := e.check(e.Lim.BranchTO, conds[i])
			d.feas[i] = r != smt.Unsat
			if d.feas[i] && e.exactNext && e.S.Abstract {
				// decisions whose alternatives depend on real arithmetic (loop bounds,
				// divisors): confirm feasibility with the exact encoding
				if e.exactQuery(conds[i], e.Lim.BranchTO*2) == smt.Unsat {
					d.feas[i] = false
				}
			}
		}
		if d.feas[i] {
			nFeasKnown++
			if first < 0 {
				first = i
			}
		}
	}
	if first < 0 {
		panic(abortPath{"infeasible", "no feasible alternative at " + label})
	}
	d.cur = first
	d.feas[first] = false
	e.decs = append(e.decs, d)
	e.Branches++
	e.enter(len(e.decs) - 1)
	e.pos++
	return first
}

// enter pushes the solver level for decision k with its current alternative.
func (e *Engine) enter(k int) {
	d := &e.decs[k]
	e.S.Push()
	var c *smt.Term
	if d.conds != nil && d.conds[d.cur] != nil {
		c = d.conds[d.cur]
	} else {
		c = e.Ctx.True()
	}
	e.pc = append(e.pc, []*smt.Term{c})
	e.cur = append(e.cur, 1)
	e.S.Assert(c)
}

// backtrack moves the decision stack to the next unexplored alternative.
// Returns false when exploration is complete.
func (e *Engine) backtrack() bool {
	for len(e.decs) > 0 {
		k := len(e.decs) - 1
		d := &e.decs[k]
		next := -1
		for i := 0; i < d.n; i++ {
			if d.feas[i] {
				next = i
				break
			}
		}
		e.S.PopTo(k)
		e.pc = e.pc[:k+1]
		if next < 0 {
			e.decs = e.decs[:k]
			continue
		}
		d.cur = next
		d.feas[next] = false
		e.enter(k)
		return true
	}
	return false
}

func (e *Engine) decisionString() string {
	var sb strings.Builder
	for i, d := range e.decs {
		if i >= e.pos {
			break
		}
		fmt.Fprintf(&sb, "%d", d.cur)
		if d.n > 10 {
			sb.WriteByte('.')
		}
	}
	return sb.String()
}

func (e *Engine) decisionList() []int {
	var out []int
	for i, d := range e.decs {
		if i >= e.pos {
			break
		}
		out = append(out, d.cur)
	}
	return out
}

func (e *Engine) FreshName(prefix string) string {
	e.fresh++
	return fmt.Sprintf("%s!%d", prefix, e.fresh)
}

func (e *Engine) obl(id string) *ObligationResult {
	o := e.Obl[id]
	if o == nil {
		o = &ObligationResult{ID: id, Arith: e.Mode()}
		e.Obl[id] = o
	}
	return o
}

func ratString(r *big.Rat) string {
	if r.IsInt() {
		return r.Num().String()
	}
	return r.String()
}

func (e *Engine) modelFrom(sv *smt.Solver) (map[string]string, error) {
	var vars []*smt.Term
	for _, v := range e.Ctx.Vars {
		if !strings.Contains(v.Name, "!") { // skip engine-internal fresh variables
			vars = append(vars, v)
		}
	}
	// only variables that occur in the path condition are constrained; the
	// others get solver defaults, which is fine (they were not read).
	var pcTerms []*smt.Term
	for _, l := range e.pc {
		pcTerms = append(pcTerms, l...)
	}
	used := map[string]bool{}
	for _, v := range smt.FreeVars(pcTerms...) {
		used[v.Name] = true
	}
	var ask []*smt.Term
	for _, v := range vars {
		if used[v.Name] {
			ask = append(ask, v)
		}
	}
	m, err := sv.Model(ask)
	if err != nil {
		return nil, err
	}
	out := map[string]string{}
	for k, v := range m {
		out[k] = ratString(v)
	}
	for _, v := range vars {
		if _, ok := out[v.Name]; !ok {
			// unconstrained: pick the lower bound of its declared range or 0
			if v.Lo != nil {
				out[v.Name] = ratString(v.Lo)
			} else {
				out[v.Name] = "0"
			}
			if v.Sort == smt.SBool {
				out[v.Name] = "0"
			}
		}
	}
	for k, v := range e.choiceVals {
		out["choice:"+k] = fmt.Sprint(v)
	}
	return out, nil
}

func (e *Engine) witness(kind, id, note string) *Witness { return e.witnessFrom(e.S, kind, id, note) }

// integerize (ideal-Q): the integer inputs of a harness are real-sorted in this mode; after a
// `sat` the model may give them fractional values, which the native replay has to round. Try to
// move each such variable to a neighbouring integer while staying satisfiable, so that the
// witness replays as found. Works inside the caller's solver scope (the caller pops it).
func (e *Engine) integerize(sv *smt.Solver) {
	debugf("integerize: %d integer inputs", len(e.intVars))
	if len(e.intVars) == 0 {
		return
	}
	c := e.Ctx
	vals, err := sv.Values(e.intVars)
	if err != nil {
		return
	}
	// keep the inputs that are already integral, then repair the others one at a time
	sv.Push()
	var frac []int
	for k, v := range e.intVars {
		if vals[k] == nil {
			continue
		}
		if vals[k].IsInt() {
			sv.Assert(c.Eq(v, c.Real(vals[k])))
		} else {
			frac = append(frac, k)
		}
	}
	for _, k := range frac {
		v := e.intVars[k]
		fl := new(big.Rat).SetInt(smt.FloorRat(vals[k]))
		ce := new(big.Rat).Add(fl, big.NewRat(1, 1))
		for _, cand := range []*big.Rat{fl, ce} {
			sv.Push()
			sv.Assert(c.Eq(v, c.Real(cand)))
			rr := sv.Check(2 * time.Second)
			debugf("integerize %s := %s: %v", v.String(), cand.RatString(), rr)
			if rr == smt.Sat {
				break
			}
			sv.PopTo(sv.Level() - 1)
		}
	}
	sv.Check(e.Lim.AssertTO) // the model is read after this call
}

func (e *Engine) witnessFrom(sv *smt.Solver, kind, id, note string) *Witness {
	m, err := e.modelFrom(sv)
	if err != nil {
		e.Notes = append(e.Notes, "model extraction failed for "+id+": "+err.Error())
		return nil
	}
	exp := map[string]string{}
	if len(e.obsKeys) > 0 {
		var ts []*smt.Term
		for _, k := range e.obsKeys {
			ts = append(ts, e.obsTerms[k])
		}
		vals, err := sv.Values(ts)
		if err != nil {
			e.Notes = append(e.Notes, "observable extraction failed for "+id+": "+err.Error())
		} else {
			for i, k := range e.obsKeys {
				exp[k] = ratString(vals[i])
			}
		}
	}
	return &Witness{Harness: e.Harness, Obligation: id, Kind: kind, Vars: m,
		Decisions: e.decisionList(), Note: note, Mode: e.Mode(), PCSize: e.pcSize(), Expect: exp, Thorough: e.Thorough}
}

// Assert discharges one obligation instance on the current path.
func (e *Engine) Assert(id string, cond *smt.Term) { e.Assert2(id, cond, "") }

// Fail: an obligation violated unconditionally on this path (e.g. a panic).
func (e *Engine) Fail(id, note string) { e.Assert2(id, e.Ctx.False(), note) }

func (e *Engine) replaying() bool { return e.Probe || e.pos < len(e.decs) }

// exactSolver returns the second, non-abstracting solver (started lazily) loaded with
// the current path condition plus extra, at a fresh scope.
func (e *Engine) exactQuery(extra *smt.Term, to time.Duration) smt.Result {
	// Each exact query runs in a fresh, non-incremental solver process: without
	// push/pop z3 applies its full preprocessing and nonlinear tactics, which decides
	// many queries the incremental core leaves unknown.
	run := func(mode int) smt.Result { // 0: no hints, 1: harness hints, 2: harness hints + automatic regime
		withHints := mode == 1 || mode == 2 // 3: automatic regime alone
		if e.SX != nil {
			e.SX.Close()
			e.SX = nil
		}
		sx, err := smt.NewSolver(e.Ctx, e.S.Cmd)
		if err != nil {
			return smt.Unknown
		}
		e.SX = sx
		if d := os.Getenv("SYMGO_DUMP"); d != "" {
			f, _ := os.Create(fmt.Sprintf("%s/%s.%d.exact.smt2", d, e.Harness, time.Now().UnixNano()))
			e.SX.Log = f
		}
		for _, l := range e.pc {
			for _, c := range l {
				sx.Assert(c)
			}
		}
		if extra != nil {
			sx.Assert(extra)
		}
		if withHints {
			for _, h := range e.hints {
				sx.Assert(h)
			}
		}
		if mode == 2 || mode == 3 {
			for _, h := range e.autoHints {
				sx.Assert(h)
			}
		}
		r := sx.Check(to)
		e.XStats.Queries++
		e.XStats.Time += sx.Stats.Time
		switch r {
		case smt.Sat:
			e.XStats.Sat++
		case smt.Unsat:
			e.XStats.Unsat++
		default:
			e.XStats.Unknown++
		}
		return r
	}
	// the plain query first: it is the only one that can refute (unsat), which is what almost every
	// candidate on an unchanged tree needs. If it stays undecided, look for a model inside narrower
	// regimes - the harness hints (nd.Hint) with the rate-like inputs fixed to simple values, the
	// harness hints alone, the automatic regime alone (the two may contradict each other). Hints only
	// ever narrow the search for a concrete counterexample: `unsat` under hints means nothing.
	if r := run(0); r != smt.Unknown {
		return r
	}
	if len(e.autoHints) > 0 && run(2) == smt.Sat {
		return smt.Sat
	}
	if len(e.hints) > 0 {
		if run(1) == smt.Sat {
			return smt.Sat
		}
		if len(e.autoHints) > 0 && run(3) == smt.Sat {
			return smt.Sat
		}
	}
	return smt.Unknown
}

// CrossCmds: additional solvers that re-decide a sample of the discharged obligation queries
// (thorough tier): z3 4.8.12 and cvc5. A `sat` from any of them against the primary `unsat`
// makes the obligation inconclusive.
var CrossCmds = [][]string{{"z3", "-in"}, {"cvc5", "--incremental", "--lang", "smt2"}}

func (e *Engine) crossCheck(id string, neg *smt.Term) {
	if !e.Thorough || e.crossDone[id] >= 2 {
		return
	}
	e.crossDone[id]++
	for _, cmd := range CrossCmds {
		sx, err := smt.NewSolver(e.Ctx, cmd)
		if err != nil {
			continue
		}
		sx.Abstract = e.S.Abstract
		sx.UFWindow = e.S.UFWindow
		for _, l := range e.pc {
			for _, c := range l {
				sx.Assert(c)
			}
		}
		sx.Assert(neg)
		r := sx.Check(20 * time.Second)
		sx.Close()
		key := cmd[0] + ":" + r.String()
		e.Cross[key]++
		if r == smt.Sat {
			e.Incomplete = append(e.Incomplete, fmt.Sprintf("cross-solver disagreement on %s: %s answers sat, primary solver unsat", id, cmd[0]))
		}
	}
}

func (e *Engine) Assert2(id string, cond *smt.Term, note string) {
	if e.replaying() {
		// already decided by the run that first explored this prefix
		if v, ok := cond.ConstBool(); !(ok && v) {
			e.addPC(cond)
		}
		return
	}
	o := e.obl(id)
	o.Paths++
	if v, ok := cond.ConstBool(); ok && v {
		o.Trivial++
		o.Unsat++
		return
	}
	start := time.Now()
	neg := e.Ctx.Not(cond)
	e.S.Push()
	baseLevel := e.S.Level()
	e.S.Assert(neg)
	ato := e.Lim.AssertTO
	inKnown := e.matchKnown(id) != nil
	if inKnown && ato > 3*time.Second {
		// inside the region of a listed finding the obligation is not claimed: a short look for
		// a witness of the finding is enough
		ato = 3 * time.Second
	}
	r := e.S.Check(ato)
	modelFrom := e.S
	knownUndecided := false
	if r == smt.Unknown && inKnown && !e.S.Dead && !e.S.Abstract {
		o.KnownUndecided++
		knownUndecided = true
		r = -1
	}
	if e.S.Dead {
		e.rebuildSolver()
		r = smt.Unknown
	} else {
		if r != smt.Unsat && e.S.Abstract {
			// abstract sat/unknown: decide with the exact encoding
			o.AbstractSat++
			rx := smt.Unknown
			if kr := e.matchKnown(id); kr != nil && (e.knownTries[kr.What] >= 2 || (e.KnownWit[kr.What] != nil && !strings.Contains(e.KnownWit[kr.What].Note, "abstraction"))) {
				// inside the region of a listed finding that already has its witness (or two attempts):
				// the obligation is not claimed there, no exact confirmation needed
				if r == smt.Unknown {
					r = smt.Sat
				}
			} else {
				if kr != nil {
					e.knownTries[kr.What]++
				}
				rx = e.exactQuery(neg, e.Lim.ExactTO)
			}
			debugf("exact confirm %s: abstract=%v exact=%v hints=%d", id, r, rx, len(e.hints))
			if rx == smt.Unknown && os.Getenv("SYMGO_DEBUG") == "2" {
				for k, d := range e.decs {
					if k < e.pos && strings.Contains(d.label, "terra-money/alliance") {
						debugf("    dec %d alt %d %s", k, d.cur, d.label)
					}
				}
			}
			switch rx {
			case smt.Unsat:
				r = smt.Unsat
				o.ExactRefuted++
			case smt.Sat:
				r = smt.Sat
				modelFrom = e.SX
			default:
				// exact solver could not decide within the short timeout. Outside known regions a
				// candidate violation is rare (none on the unchanged tree), so it is worth a longer
				// look: twice per obligation with 6x the timeout.
				if r == smt.Sat && e.matchKnown(id) == nil && o.LongTries < 2 {
					o.LongTries++
					rx = e.exactQuery(neg, 6*e.Lim.ExactTO)
					debugf("exact confirm (long) %s: %v", id, rx)
					if rx == smt.Unsat {
						r = smt.Unsat
						o.ExactRefuted++
						break
					}
					if rx == smt.Sat {
						modelFrom = e.SX
						break
					}
				}
				// keep the abstract model as a candidate (it is reported only if it reproduces natively)
				if r == smt.Sat {
					o.AbstractOnly++
				}
			}
		}
		if r == smt.Sat {
			kr := e.matchKnown(id)
			if kr != nil {
				e.KnownHits[kr.What]++
			}
			isAbs := modelFrom == e.S && e.S.Abstract
			nAbs, nExact := 0, 0
			for _, w := range o.Witnesses {
				if strings.Contains(w.Note, "abstraction") {
					nAbs++
				} else {
					nExact++
				}
			}
			room := (isAbs && nAbs < 2) || (!isAbs && nExact < 3)
			if kr != nil {
				old := e.KnownWit[kr.What]
				room = old == nil || (!isAbs && strings.Contains(old.Note, "abstraction"))
			}
			if room {
				if e.Ctx.Ideal && modelFrom == e.S {
					e.integerize(e.S)
				}
				if w := e.witnessFrom(modelFrom, "violation", id, note); w != nil {
					w.Tags = append([]string(nil), e.tags...)
					if isAbs {
						w.Note += " [model of the UF abstraction; exact solver undecided]"
					}
					if kr != nil {
						w.Kind = "known"
						e.KnownWit[kr.What] = w
					} else {
						o.Witnesses = append(o.Witnesses, w)
					}
				}
			}
			if kr != nil {
				r = -1
			}
		}
		e.S.PopTo(baseLevel - 1)
	}
	o.SolverMS += time.Since(start).Milliseconds()
	debugf("assert %s: result=%v tags=%v known=%v ms=%d", id, r, e.tags, e.matchKnown(id) != nil, time.Since(start).Milliseconds())
	if r == smt.Unsat && !e.S.Dead {
		e.crossCheck(id, neg)
	}
	switch r {
	case smt.Unsat:
		o.Unsat++
	case smt.Sat:
		o.Sat++
	case -1:
		if !knownUndecided {
			o.KnownSat++
		}
	default:
		o.Unknown++
	}
	if v, ok := cond.ConstBool(); ok && !v {
		panic(abortPath{"done", "path ended at failed obligation " + id})
	}
	// continue under the assumption that the assertion holds
	if e.addPC(cond) && r != smt.Unsat {
		if e.check(e.Lim.BranchTO) == smt.Unsat {
			panic(abortPath{"infeasible", "assertion cannot hold on this path"})
		}
	}
}

// Observe records an observable of the symbolic run (evaluated under the model
// when a witness is produced, compared with the native run during replay).
func (e *Engine) Observe(key string, t *smt.Term) {
	if _, ok := e.obsTerms[key]; !ok {
		e.obsKeys = append(e.obsKeys, key)
	}
	e.obsTerms[key] = t
}

// AutoHint records the automatic regime of a rate-like input (once per variable and path).
func (e *Engine) AutoHint(name string, t *smt.Term) {
	if e.autoNames[name] {
		return
	}
	e.autoNames[name] = true
	e.autoHints = append(e.autoHints, t)
}

// Hint: a simplifying regime used only while searching a concrete model for a counterexample.
func (e *Engine) Hint(t *smt.Term) { e.hints = append(e.hints, t) }

func (e *Engine) Tag(t string) {
	for _, x := range e.tags {
		if x == t {
			return
		}
	}
	e.tags = append(e.tags, t)
}

func (e *Engine) SetKnown(k []KnownRegion) { e.known = k }

func (e *Engine) matchKnown(id string) *KnownRegion {
	for i := range e.known {
		k := &e.known[i]
		if k.Obligation != id {
			continue
		}
		ok := true
		for _, t := range k.Tags {
			found := false
			for _, x := range e.tags {
				if x == t {
					found = true
				}
			}
			if !found {
				ok = false
			}
		}
		if ok {
			return k
		}
	}
	return nil
}

func (e *Engine) Reach(id string) {
	if e.replaying() {
		return
	}
	e.Reached[id]++
	if w := e.ReachWit[id]; w != nil && !strings.Contains(w.Note, "abstraction") {
		return
	}
	if e.S.Abstract && e.reachTries[id] < 2 {
		e.reachTries[id]++
		to := e.Lim.AssertTO
		if to > 3*time.Second {
			to = 3 * time.Second
		}
		switch e.exactQuery(nil, to) {
		case smt.Sat:
			if w := e.witnessFrom(e.SX, "reach", id, ""); w != nil {
				e.ReachWit[id] = w
			}
			return
		case smt.Unsat:
			panic(abortPath{"infeasible", "path condition unsatisfiable in exact arithmetic"})
		}
		if e.ReachWit[id] != nil {
			return
		}
	}
	e.S.Push()
	r := e.S.Check(e.Lim.AssertTO)
	if e.S.Dead {
		e.rebuildSolver()
		return
	}
	if r == smt.Sat {
		note := ""
		if e.S.Abstract {
			note = "model of the UF abstraction"
		}
		if w := e.witness("reach", id, note); w != nil {
			e.ReachWit[id] = w
		}
	}
	e.S.PopTo(e.S.Level() - 1)
}

func (e *Engine) Close() {
	e.S.Close()
	if e.SX != nil {
		e.SX.Close()
	}
}

// SortedObligations returns obligation ids sorted.
func (e *Engine) SortedObligations() []string {
	var ids []string
	for id := range e.Obl {
		ids = append(ids, id)
	}
	sort.Strings(ids)
	return ids
}

func debugf(format string, args ...interface{}) {
	if os.Getenv("SYMGO_DEBUG") != "" {
		fmt.Fprintf(os.Stderr, format+"\n", args...)
	}
}
