package interp

// Symbolic value kinds and the symbolic cases of binop / unop / conv.

import (
	"fmt"
	"go/token"
	"go/types"
	"math/big"

	"symgo/smt"
)

// IntV is a cosmossdk.io/math.Int; T == nil is the nil Int (zero value).
type IntV struct{ T *smt.Term }

// DecV is a cosmossdk.io/math.LegacyDec. exact-Z: integer scaled by 10^18;
// ideal-Q: Real. T == nil is the nil Dec.
type DecV struct{ T *smt.Term }

// TimeV is a time.Time: Int nanoseconds since the Unix epoch (UTC, no monotonic part).
type TimeV struct{ T *smt.Term }

// SymInt is a Go fixed-width integer with a symbolic value.
type SymInt struct {
	T *smt.Term
	K types.BasicKind
}

type SymBool struct{ T *smt.Term }

// SymFloat is a float64 with a symbolic value, modelled as an exact real (stated bound:
// floating-point rounding is ignored; it only arises from time.Duration.Seconds() and friends).
type SymFloat struct{ T *smt.Term }

// TimeByte is byte I (0..28) of sdk.FormatTimeBytes(T) for a symbolic time T.
type TimeByte struct {
	T *smt.Term
	I int
	// Inc: the last byte of the group incremented by one (what PrefixEndBytes does to build an
	// exclusive upper bound): the group then sorts right after every key carrying time T.
	Inc bool
}

// Blob is a marshalled message (codec stub): one element of a []byte-typed slice.
type Blob struct {
	T types.Type
	V value
}

const timeBytesLen = 29 // len(sdk.SortableTimeFormat)

// zeroTimeNS: time.Time{} (January 1, year 1 UTC) in Unix nanoseconds.
var zeroTimeNS = new(big.Int).Mul(big.NewInt(-62135596800), big.NewInt(1000000000))

type atomicKind int

const (
	notAtomic atomicKind = iota
	atomInt
	atomDec
	atomTime
)

func atomicNamed(t types.Type) atomicKind {
	n, ok := types.Unalias(t).(*types.Named)
	if !ok {
		return notAtomic
	}
	obj := n.Obj()
	if obj.Pkg() == nil {
		return notAtomic
	}
	switch obj.Pkg().Path() {
	case "cosmossdk.io/math":
		switch obj.Name() {
		case "Int":
			return atomInt
		case "LegacyDec":
			return atomDec
		}
	case "time":
		if obj.Name() == "Time" {
			return atomTime
		}
	}
	return notAtomic
}

func (i *interpreter) zeroAtomic(k atomicKind) value {
	switch k {
	case atomInt:
		return IntV{}
	case atomDec:
		return DecV{}
	case atomTime:
		return TimeV{i.eng.Ctx.Int(zeroTimeNS)}
	}
	panic("zeroAtomic")
}

func unsupported(format string, args ...interface{}) {
	panic(abortPath{"unsupported", fmt.Sprintf(format, args...)})
}

func basicKind(t types.Type) types.BasicKind {
	if b, ok := t.Underlying().(*types.Basic); ok {
		k := b.Kind()
		switch k {
		case types.UntypedInt:
			return types.Int
		case types.UntypedRune:
			return types.Int32
		}
		return k
	}
	return types.Invalid
}

func kindBits(k types.BasicKind) (bits uint, signed bool) {
	switch k {
	case types.Int, types.Int64:
		return 64, true
	case types.Int32:
		return 32, true
	case types.Int16:
		return 16, true
	case types.Int8:
		return 8, true
	case types.Uint, types.Uint64, types.Uintptr:
		return 64, false
	case types.Uint32:
		return 32, false
	case types.Uint16:
		return 16, false
	case types.Uint8:
		return 8, false
	}
	return 0, false
}

func isSymInt(v value) bool { _, ok := v.(SymInt); return ok }

// concrete Go integer -> big.Int
func bigOfInt(v value) (*big.Int, bool) {
	switch x := v.(type) {
	case int:
		return big.NewInt(int64(x)), true
	case int8:
		return big.NewInt(int64(x)), true
	case int16:
		return big.NewInt(int64(x)), true
	case int32:
		return big.NewInt(int64(x)), true
	case int64:
		return big.NewInt(x), true
	case uint:
		return new(big.Int).SetUint64(uint64(x)), true
	case uint8:
		return big.NewInt(int64(x)), true
	case uint16:
		return big.NewInt(int64(x)), true
	case uint32:
		return big.NewInt(int64(x)), true
	case uint64:
		return new(big.Int).SetUint64(x), true
	case uintptr:
		return new(big.Int).SetUint64(uint64(x)), true
	}
	return nil, false
}

// concrete value of kind k from big.Int (must be in range)
func intOfBig(k types.BasicKind, b *big.Int) value {
	switch k {
	case types.Int:
		return int(b.Int64())
	case types.Int8:
		return int8(b.Int64())
	case types.Int16:
		return int16(b.Int64())
	case types.Int32:
		return int32(b.Int64())
	case types.Int64:
		return b.Int64()
	case types.Uint:
		return uint(b.Uint64())
	case types.Uint8:
		return uint8(b.Uint64())
	case types.Uint16:
		return uint16(b.Uint64())
	case types.Uint32:
		return uint32(b.Uint64())
	case types.Uint64:
		return b.Uint64()
	case types.Uintptr:
		return uintptr(b.Uint64())
	}
	panic(fmt.Sprintf("intOfBig: kind %v", k))
}

func (i *interpreter) termOfInt(v value) *smt.Term {
	if s, ok := v.(SymInt); ok {
		return s.T
	}
	if b, ok := bigOfInt(v); ok {
		return i.eng.Ctx.Int(b)
	}
	if tb, ok := v.(TimeByte); ok {
		_ = tb
		unsupported("arithmetic on a symbolic time-format byte")
	}
	panic(fmt.Sprintf("termOfInt: %T", v))
}

// mkInt boxes a term as a Go integer of kind k (concrete when constant).
func (i *interpreter) mkInt(k types.BasicKind, t *smt.Term) value { return mkIntT(k, t) }

func mkIntT(k types.BasicKind, t *smt.Term) value {
	t = wrapTerm(k, t)
	if c, ok := t.ConstInt(); ok {
		return intOfBig(k, c)
	}
	return SymInt{t, k}
}

func wrapTerm(k types.BasicKind, t *smt.Term) *smt.Term {
	bits, signed := kindBits(k)
	if bits == 0 {
		unsupported("symbolic value of non-integer kind %v", k)
	}
	c := t.C
	two := new(big.Int).Lsh(big.NewInt(1), bits)
	var lo, hi *big.Int
	if signed {
		half := new(big.Int).Lsh(big.NewInt(1), bits-1)
		lo = new(big.Int).Neg(half)
		hi = new(big.Int).Sub(half, big.NewInt(1))
	} else {
		lo = new(big.Int)
		hi = new(big.Int).Sub(two, big.NewInt(1))
	}
	if t.Lo != nil && t.Hi != nil && t.Lo.Cmp(new(big.Rat).SetInt(lo)) >= 0 && t.Hi.Cmp(new(big.Rat).SetInt(hi)) <= 0 {
		return t
	}
	if v, ok := t.ConstInt(); ok {
		m := new(big.Int).Mod(new(big.Int).Sub(v, lo), two)
		return c.Int(m.Add(m, lo))
	}
	if signed {
		return c.Add(c.EMod(c.Sub(t, c.Int(lo)), c.Int(two)), c.Int(lo))
	}
	return c.EMod(t, c.Int(two))
}

func boolVal(c *smt.Ctx, t *smt.Term) value {
	if v, ok := t.ConstBool(); ok {
		return v
	}
	return SymBool{t}
}

func (i *interpreter) termOfBool(v value) *smt.Term {
	switch x := v.(type) {
	case bool:
		return i.eng.Ctx.Bool(x)
	case SymBool:
		return x.T
	}
	panic(fmt.Sprintf("termOfBool: %T", v))
}

// symCond resolves the condition of an If.
func (fr *frame) symCond(v value, pos token.Pos) bool {
	switch x := v.(type) {
	case bool:
		return x
	case SymBool:
		label := fr.fn.String()
		if pos.IsValid() {
			label += " @" + fr.i.prog.Fset.Position(pos).String()
		} else if fr.block != nil {
			label += fmt.Sprintf(" block %d", fr.block.Index)
			// position of the nearest preceding instruction with one
			for k := len(fr.block.Instrs) - 1; k >= 0; k-- {
				if p := fr.block.Instrs[k].Pos(); p.IsValid() {
					label += " @" + fr.i.prog.Fset.Position(p).String()
					break
				}
			}
		}
		return fr.i.eng.Branch(x.T, label)
	}
	panic(fmt.Sprintf("If on %T", v))
}

func (i *interpreter) symBinop(op token.Token, t types.Type, x, y value) value {
	c := i.eng.Ctx
	// booleans
	if _, ok := x.(SymBool); ok || isSymBool(y) {
		a, b := i.termOfBool(x), i.termOfBool(y)
		switch op {
		case token.EQL:
			return boolVal(c, c.Eq(a, b))
		case token.NEQ:
			return boolVal(c, c.Ne(a, b))
		case token.AND:
			return boolVal(c, c.And(a, b))
		case token.OR:
			return boolVal(c, c.Or(a, b))
		}
		unsupported("binop %s on symbolic bool", op)
	}
	k := basicKind(t)
	a := i.termOfInt(x)
	switch op {
	case token.SHL, token.SHR:
		sh, ok := bigOfInt(y)
		if !ok {
			unsupported("symbolic shift amount")
		}
		p := new(big.Int).Lsh(big.NewInt(1), uint(sh.Uint64()))
		if op == token.SHL {
			return i.mkInt(k, c.Mul(a, c.Int(p)))
		}
		return i.mkInt(k, c.EDiv(a, c.Int(p))) // arithmetic shift = floor division
	}
	b := i.termOfInt(y)
	switch op {
	case token.ADD:
		return i.mkInt(k, c.Add(a, b))
	case token.SUB:
		return i.mkInt(k, c.Sub(a, b))
	case token.MUL:
		return i.mkInt(k, c.Mul(a, b))
	case token.QUO, token.REM:
		zero := c.Eq(b, c.Int64(0))
		if i.eng.Branch(zero, "integer divide by zero?") {
			panic(targetPanic{iface{i.runtimeErrorString, "runtime error: integer divide by zero"}})
		}
		if op == token.QUO {
			return i.mkInt(k, c.TDiv(a, b))
		}
		return i.mkInt(k, c.TRem(a, b))
	case token.EQL:
		return boolVal(c, c.Eq(a, b))
	case token.NEQ:
		return boolVal(c, c.Ne(a, b))
	case token.LSS:
		return boolVal(c, c.Lt(a, b))
	case token.LEQ:
		return boolVal(c, c.Le(a, b))
	case token.GTR:
		return boolVal(c, c.Gt(a, b))
	case token.GEQ:
		return boolVal(c, c.Ge(a, b))
	}
	unsupported("binop %s on symbolic integer", op)
	return nil
}

func isSymBool(v value) bool { _, ok := v.(SymBool); return ok }

func (i *interpreter) conv(tDst, tSrc types.Type, x value) value {
	if _, ok := x.(SymInt); ok {
		return i.symConv(tDst, tSrc, x)
	}
	if f, ok := x.(SymFloat); ok {
		kd := basicKind(tDst)
		if bits, _ := kindBits(kd); bits != 0 {
			// float -> integer conversion truncates toward zero
			c := i.eng.Ctx
			fl := c.ToInt(f.T)
			neg := c.Neg(c.ToInt(c.Neg(f.T)))
			return mkIntT(kd, c.Ite(c.Ge(f.T, c.Real(new(big.Rat))), fl, neg))
		}
		if kd == types.Float64 || kd == types.Float32 {
			return f
		}
		unsupported("conversion of symbolic float to %s", tDst)
	}
	return conv(tDst, tSrc, x)
}

func (i *interpreter) symConv(tDst, tSrc types.Type, x value) value {
	s := x.(SymInt)
	kd := basicKind(tDst)
	if bits, _ := kindBits(kd); bits == 0 {
		unsupported("conversion of symbolic integer to %s", tDst)
	}
	return i.mkInt(kd, s.T)
}

// constTime: TimeV from concrete ns.
func (i *interpreter) timeConst(ns *big.Int) TimeV { return TimeV{i.eng.Ctx.Int(ns)} }

// symEquals: equality of atomic symbolic values inside Go == (structs, interfaces).
func symEquals(x, y value) (bool, bool) {
	tx, ty := atomTerm(x), atomTerm(y)
	if tx == nil && ty == nil {
		switch x.(type) {
		case IntV, DecV:
			return true, true // both nil
		}
		return false, false
	}
	if tx == nil || ty == nil {
		switch x.(type) {
		case IntV, DecV, TimeV, SymInt, SymBool:
			if tx == nil || ty == nil {
				_, xa := x.(IntV)
				_, xd := x.(DecV)
				if xa || xd {
					return false, true // nil vs non-nil pointer inside: different
				}
			}
		}
		return false, false
	}
	if tx == ty {
		return true, true
	}
	if tx.IsConst() && ty.IsConst() {
		return false, true
	}
	unsupported("Go == on symbolic values (%s vs %s)", tx, ty)
	return false, false
}

func atomTerm(v value) *smt.Term {
	switch x := v.(type) {
	case IntV:
		return x.T
	case DecV:
		return x.T
	case TimeV:
		return x.T
	case SymInt:
		return x.T
	case SymBool:
		return x.T
	}
	return nil
}

// strPanic boxes a Go string as the interface value a target panic carries.
func strPanic(msg string) value { return iface{t: types.Typ[types.String], v: msg} }
