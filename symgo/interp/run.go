package interp

// Entry points of the symbolic executor (replaces interp.Interpret).

import (
	"fmt"
	"go/token"
	"go/types"
	"os"
	"runtime"
	"runtime/debug"
	"sort"
	"strings"
	"sync"

	"golang.org/x/tools/go/ssa"

	"symgo/smt"
)

func mustDeref(t types.Type) types.Type {
	if p, ok := t.Underlying().(*types.Pointer); ok {
		return p.Elem()
	}
	panic(fmt.Sprintf("mustDeref: not a pointer: %s", t))
}

// Program is the shared, read-only part: SSA program plus interpreter tables.
type Program struct {
	Prog       *ssa.Program
	InitPaths  []string // packages whose init is executed on every path (in order)
	Allow      []string // package path prefixes that are interpreted from source
	HarnessPkg *ssa.Package
	errType    types.Type // harness OpaqueErr type (value type implementing error)

	reflectPackage     *ssa.Package
	errorMethods       methodSet
	rtypeMethods       methodSet
	runtimeErrorString types.Type
	once               sync.Once
	snapMu             sync.Mutex
	Addr               map[string][]byte // bech32 string -> bytes (universe table)
	AddrRev            map[string]string // string(bytes)+"|"+hrp kind -> bech32
}

func (p *Program) HarnessType(name string) types.Type {
	return p.HarnessPkg.Type(name).Type()
}

func (p *Program) prepare() {
	p.once.Do(func() {
		i := &interpreter{prog: p.Prog}
		runtimePkg := p.Prog.ImportedPackage("runtime")
		if runtimePkg == nil {
			panic("ssa.Program doesn't include runtime package")
		}
		p.runtimeErrorString = runtimePkg.Type("errorString").Object().Type()
		p.errType = p.HarnessType("OpaqueErr")
		initReflect(i)
		p.reflectPackage = i.reflectPackage
		p.errorMethods = i.errorMethods
		p.rtypeMethods = i.rtypeMethods
	})
}

func (p *Program) newInterp(eng *Engine) *interpreter {
	p.prepare()
	i := &interpreter{
		prog:               p.Prog,
		globals:            make(map[*ssa.Global]*value),
		sizes:              &types.StdSizes{WordSize: 8, MaxAlign: 8},
		goroutines:         1,
		reflectPackage:     p.reflectPackage,
		errorMethods:       p.errorMethods,
		rtypeMethods:       p.rtypeMethods,
		runtimeErrorString: p.runtimeErrorString,
		eng:                eng,
		P:                  p,
	}
	initSet := map[string]bool{}
	for _, ip := range p.InitPaths {
		initSet[ip] = true
	}
	for _, pkg := range p.Prog.AllPackages() {
		for _, m := range pkg.Members {
			if g, ok := m.(*ssa.Global); ok {
				cell := zero(mustDeref(g.Type()))
				if g.Name() == "init$guard" && !initSet[pkg.Pkg.Path()] {
					cell = true
				}
				// error sentinels of packages whose init is not run
				if !initSet[pkg.Pkg.Path()] && isErrorType(mustDeref(g.Type())) {
					cell = i.opaqueErr(pkg.Pkg.Name() + "." + g.Name())
				}
				// registered error sentinels (*cosmossdk.io/errors.Error) of packages whose init is
				// not run: distinct non-nil values carrying their name
				if !initSet[pkg.Pkg.Path()] {
					if pt, ok := mustDeref(g.Type()).(*types.Pointer); ok {
						if nt, ok := pt.Elem().(*types.Named); ok && nt.Obj().Pkg() != nil && nt.Obj().Pkg().Path() == "cosmossdk.io/errors" && nt.Obj().Name() == "Error" {
							v := zero(nt)
							st := v.(structure)
							st[0], st[2] = pkg.Pkg.Name(), pkg.Pkg.Name()+"."+g.Name()
							cell = &v
						}
					}
				}
				i.globals[g] = &cell
			}
		}
	}
	return i
}

var universeError = types.Universe.Lookup("error").Type()

func isErrorType(t types.Type) bool { return types.Identical(t, universeError) }

// opaqueErr builds an error value of the harness type nd.OpaqueErr{Msg}.
func (i *interpreter) opaqueErr(msg string) value {
	return iface{t: i.P.errType, v: structure{msg}}
}

// snapshot of the globals after the package initialisers ran (per engine); each path
// starts from a pointer-preserving deep copy instead of re-running the initialisers.
type globalSnap struct {
	vals map[*ssa.Global]value
}

func (i *interpreter) takeSnapshot() *globalSnap {
	gs := &globalSnap{vals: map[*ssa.Global]value{}}
	initSet := map[string]bool{}
	for _, ip := range i.P.InitPaths {
		initSet[ip] = true
	}
	for g, cell := range i.globals {
		// only packages whose initialisers ran have non-zero globals
		if g.Pkg != nil && initSet[g.Pkg.Pkg.Path()] {
			gs.vals[g] = *cell
		}
	}
	return gs
}

func (i *interpreter) restoreSnapshotFrom(eng *Engine) {
	gs := eng.snap.(*globalSnap)
	memo := map[*value]*value{}
	// global cells themselves can be pointed to (address of a package variable)
	for g := range gs.vals {
		if old, ok := eng.snapCells[g]; ok {
			memo[old] = i.globals[g]
		}
	}
	for g, v := range gs.vals {
		*i.globals[g] = copyDeep(v, memo)
	}
}

func copyDeep(v value, memo map[*value]*value) value {
	switch x := v.(type) {
	case *value:
		if x == nil {
			return x
		}
		if n, ok := memo[x]; ok {
			return n
		}
		n := new(value)
		memo[x] = n
		*n = copyDeep(*x, memo)
		return n
	case []value:
		if x == nil {
			return x
		}
		out := make([]value, len(x), cap(x))
		for k, e := range x {
			out[k] = copyDeep(e, memo)
		}
		return out
	case structure:
		out := make(structure, len(x))
		for k, e := range x {
			out[k] = copyDeep(e, memo)
		}
		return out
	case array:
		out := make(array, len(x))
		for k, e := range x {
			out[k] = copyDeep(e, memo)
		}
		return out
	case tuple:
		out := make(tuple, len(x))
		for k, e := range x {
			out[k] = copyDeep(e, memo)
		}
		return out
	case iface:
		return iface{t: x.t, v: copyDeep(x.v, memo)}
	case map[value]value:
		if x == nil {
			return x
		}
		out := make(map[value]value, len(x))
		for k, e := range x {
			out[copyDeep(k, memo)] = copyDeep(e, memo)
		}
		return out
	case *hashmap:
		if x == nil {
			return x
		}
		out := &hashmap{keyType: x.keyType, table: make(map[int]*entry, len(x.table)), length: x.length}
		for h, e := range x.table {
			var head, tail *entry
			for ; e != nil; e = e.next {
				ne := &entry{key: copyDeep(e.key, memo).(hashable), value: copyDeep(e.value, memo)}
				if head == nil {
					head = ne
				} else {
					tail.next = ne
				}
				tail = ne
			}
			out.table[h] = head
		}
		return out
	case *closure:
		if x == nil {
			return x
		}
		env := make([]value, len(x.Env))
		for k, e := range x.Env {
			env[k] = copyDeep(e, memo)
		}
		return &closure{Fn: x.Fn, Env: env}
	}
	return v
}

func (i *interpreter) runInits() {
	i.inInit = true
	defer func() { i.inInit = false }()
	for _, path := range i.P.InitPaths {
		pkg := i.prog.ImportedPackage(path)
		if pkg == nil {
			panic("init package not loaded: " + path)
		}
		call(i, nil, token.NoPos, pkg.Func("init"), nil)
	}
}

func pkgPathOf(fn *ssa.Function) string {
	if fn.Pkg != nil {
		return fn.Pkg.Pkg.Path()
	}
	if o := fn.Origin(); o != nil && o.Pkg != nil {
		return o.Pkg.Pkg.Path()
	}
	if obj := fn.Object(); obj != nil && obj.Pkg() != nil {
		return obj.Pkg().Path()
	}
	return ""
}

func (i *interpreter) allowed(fn *ssa.Function) bool {
	path := pkgPathOf(fn)
	if path == "" {
		return true // synthetic wrapper / bound method / thunk
	}
	for _, a := range i.P.Allow {
		if path == a || strings.HasPrefix(path, a+"/") && !strings.HasSuffix(a, "!") {
			return true
		}
		if strings.HasSuffix(a, "!") && path == strings.TrimSuffix(a, "!") {
			return true
		}
	}
	return false
}

// PathEnd describes how one path ended.
type PathEnd struct {
	Kind string // "return", "panic", "infeasible", "unsupported", "budget", "done"
	Msg  string
}

// runPath executes the harness once along the current decision stack.
func (p *Program) runPath(eng *Engine, fn *ssa.Function) (end PathEnd) {
	i := p.newInterp(eng)
	eng.beginPath()
	defer func() {
		eng.steps = i.steps
		r := recover()
		if r == nil {
			return
		}
		switch x := r.(type) {
		case abortPath:
			end = PathEnd{x.kind, x.msg}
		case targetPanic:
			end = PathEnd{"panic", toString(x.v)}
		case runtime.Error:
			msg := x.Error()
			if os.Getenv("SYMGO_DEBUG") != "" {
				msg += "\n" + string(debug.Stack())
			}
			end = PathEnd{"panic", "runtime error: " + msg}
		case string:
			end = PathEnd{"panic", x}
		default:
			end = PathEnd{"panic", fmt.Sprintf("%T: %v", r, r)}
		}
	}()
	if eng.snap == nil {
		i.runInits()
		// remember the cells of this interpreter so pointers into globals can be remapped
		p.snapMu.Lock()
		eng.snapCells = map[*ssa.Global]*value{}
		for g, c := range i.globals {
			eng.snapCells[g] = c
		}
		p.snapMu.Unlock()
		eng.snap = i.takeSnapshot()
		// the first path must itself start from a copy (the snapshot stays pristine)
		i2 := p.newInterp(eng)
		i2.restoreSnapshotFrom(eng)
		*i = *i2
	} else {
		i.restoreSnapshotFrom(eng)
	}
	call(i, nil, token.NoPos, fn, nil)
	return PathEnd{"return", ""}
}

// LeadingChoices runs the first path of fn and returns the arities of the leading pure
// enumerations (nd.Choice calls made before any symbolic branch); used to split a
// harness into independent tasks.
func (p *Program) LeadingChoices(eng *Engine, fn *ssa.Function) []int {
	eng.pc = [][]*smt.Term{nil}
	p.runPath(eng, fn)
	var out []int
	for _, d := range eng.decs {
		if d.conds != nil {
			break
		}
		out = append(out, d.n)
	}
	return out
}

// Explore runs the DFS over all paths of harness fn.
func (p *Program) Explore(eng *Engine, fn *ssa.Function, progress func(string)) {
	eng.pc = [][]*smt.Term{nil}
	for {
		if eng.Lim.MaxPaths > 0 && eng.Paths >= eng.Lim.MaxPaths {
			eng.Incomplete = append(eng.Incomplete, fmt.Sprintf("path cap %d reached", eng.Lim.MaxPaths))
			break
		}
		end := p.runPath(eng, fn)
		eng.Paths++
		switch end.Kind {
		case "return", "done", "infeasible":
		case "panic":
			// a panic that escaped the harness: an implicit obligation
			eng.Panics++
			func() {
				defer func() {
					if r := recover(); r != nil {
						if _, ok := r.(abortPath); !ok {
							panic(r)
						}
					}
				}()
				eng.pos = len(eng.decs)
				eng.Fail(eng.Harness+".nopanic", "uncaught panic: "+firstLine(end.Msg))
			}()
		default:
			eng.Aborted[end.Kind+": "+firstLine(end.Msg)]++
		}
		if len(eng.Samples) < 6 || end.Kind == "panic" && len(eng.Samples) < 12 {
			eng.Samples = append(eng.Samples, PathSummary{Decisions: eng.decisionString(), PCSize: eng.pcSize(), End: end.Kind + " " + firstLine(end.Msg), Steps: eng.steps})
		}
		if progress != nil {
			progress(fmt.Sprintf("path %d [%s] %s %s steps=%d", eng.Paths, eng.decisionString(), end.Kind, firstLine(end.Msg), eng.steps))
		}
		if end.Kind == "budget" && strings.Contains(end.Msg, "task deadline") {
			eng.Incomplete = append(eng.Incomplete, "exploration stopped at the time budget: the remaining paths of this task were not explored")
			break
		}
		if !eng.backtrack() {
			break
		}
	}
	for k, n := range eng.Aborted {
		eng.Incomplete = append(eng.Incomplete, fmt.Sprintf("%d path(s) aborted: %s", n, k))
	}
	sort.Strings(eng.Incomplete)
}

func firstLine(s string) string {
	if k := strings.IndexByte(s, '\n'); k >= 0 {
		s = s[:k]
	}
	if len(s) > 300 {
		s = s[:300]
	}
	return s
}
