package interp

// The harness API (package hv/nd): intercepted here, real in the native build.

import (
	"fmt"
	"go/types"
	"math/big"

	"symgo/smt"
)

const ndPkg = "hv/nd"

func parseBig(s string) *big.Int {
	b, ok := new(big.Int).SetString(s, 10)
	if !ok {
		panic("nd: bad integer literal " + s)
	}
	return b
}

func parseRat(s string) *big.Rat {
	r, ok := new(big.Rat).SetString(s)
	if !ok {
		panic("nd: bad decimal literal " + s)
	}
	return r
}

func (fr *frame) declRange(name string, sort smt.Sort, lo, hi *big.Rat) *smt.Term {
	c := fr.ctx()
	eng := fr.i.eng
	v := c.Var(name, sort)
	prev, ok := eng.Ranges[name]
	if ok {
		if prev.lo.Cmp(lo) != 0 || prev.hi.Cmp(hi) != 0 {
			panic(fmt.Sprintf("nd: variable %s declared with two different ranges", name))
		}
	} else {
		mk := func(r *big.Rat) *smt.Term {
			if sort == smt.SReal {
				return c.Real(r)
			}
			return c.Int(r.Num())
		}
		// build the constraint BEFORE the interval is attached to the variable,
		// otherwise the interval-based folding would erase it
		prev = rangeDecl{lo, hi, c.And(c.Le(mk(lo), v), c.Le(v, mk(hi)))}
		eng.Ranges[name] = prev
		v.Lo, v.Hi = lo, hi
	}
	// range constraints go straight to the path condition (no feasibility query)
	eng.addPC(prev.cons)
	return v
}

func init() {
	N := ndPkg + "."
	reg(N+"Symbolic", func(fr *frame, a []value) value { return true })
	reg(N+"Ideal", func(fr *frame, a []value) value { return fr.ideal() })
	reg(N+"IntRange", func(fr *frame, a []value) value {
		lo, hi := parseBig(a[1].(string)), parseBig(a[2].(string))
		sort := smt.SInt
		if fr.ideal() {
			sort = smt.SReal
		}
		v := fr.declRange(a[0].(string), sort, new(big.Rat).SetInt(lo), new(big.Rat).SetInt(hi))
		if fr.ideal() {
			fr.i.eng.intTerms = append(fr.i.eng.intTerms, v)
			fr.i.eng.intVars = append(fr.i.eng.intVars, v)
		}
		return IntV{v}
	})
	reg(N+"DecRange", func(fr *frame, a []value) value {
		lo, hi := parseRat(a[1].(string)), parseRat(a[2].(string))
		if fr.ideal() {
			return DecV{fr.declRange(a[0].(string), smt.SReal, lo, hi)}
		}
		p := new(big.Rat).SetInt(smt.P18)
		slo, shi := new(big.Rat).Mul(lo, p), new(big.Rat).Mul(hi, p)
		if !slo.IsInt() || !shi.IsInt() {
			panic("nd.DecRange: bounds with more than 18 decimals")
		}
		v := fr.declRange(a[0].(string), smt.SInt, slo, shi)
		// automatic regime for concrete-witness search: a "simple" value of the range (0.5 for
		// fractions, else 1, else the nearest bound); fixing the rate-like inputs makes the exact
		// query linear in the integer amounts
		half, one := big.NewRat(1, 2), big.NewRat(1, 1)
		pick := lo
		switch {
		case lo.Cmp(half) <= 0 && half.Cmp(hi) <= 0 && hi.Cmp(one) <= 0:
			pick = half
		case lo.Cmp(one) <= 0 && one.Cmp(hi) <= 0:
			pick = one
		case hi.Cmp(one) < 0:
			pick = hi
		}
		sp := new(big.Rat).Mul(pick, p)
		fr.i.eng.AutoHint(a[0].(string), fr.ctx().Eq(v, fr.ctx().Int(sp.Num())))
		return DecV{v}
	})
	reg(N+"NilDec", func(fr *frame, a []value) value { return DecV{} })
	reg(N+"NilInt", func(fr *frame, a []value) value { return IntV{} })
	reg(N+"Int64Range", func(fr *frame, a []value) value {
		lo, _ := bigOfInt(a[1])
		hi, _ := bigOfInt(a[2])
		v := fr.declRange(a[0].(string), smt.SInt, new(big.Rat).SetInt(lo), new(big.Rat).SetInt(hi))
		return mkIntT(types.Int64, v)
	})
	reg(N+"Uint64Range", func(fr *frame, a []value) value {
		lo, _ := bigOfInt(a[1])
		hi, _ := bigOfInt(a[2])
		v := fr.declRange(a[0].(string), smt.SInt, new(big.Rat).SetInt(lo), new(big.Rat).SetInt(hi))
		return mkIntT(types.Uint64, v)
	})
	reg(N+"DurRange", func(fr *frame, a []value) value {
		lo, _ := bigOfInt(a[1])
		hi, _ := bigOfInt(a[2])
		v := fr.declRange(a[0].(string), smt.SInt, new(big.Rat).SetInt(lo), new(big.Rat).SetInt(hi))
		return mkIntT(types.Int64, v)
	})
	reg(N+"TimeRange", func(fr *frame, a []value) value {
		// bounds in Unix seconds; the value is symbolic nanoseconds
		lo, _ := bigOfInt(a[1])
		hi, _ := bigOfInt(a[2])
		e9 := big.NewInt(1000000000)
		v := fr.declRange(a[0].(string), smt.SInt, new(big.Rat).SetInt(new(big.Int).Mul(lo, e9)), new(big.Rat).SetInt(new(big.Int).Mul(hi, e9)))
		return TimeV{v}
	})
	reg(N+"Bool", func(fr *frame, a []value) value {
		return SymBool{fr.ctx().Var(a[0].(string), smt.SBool)}
	})
	reg(N+"Choice", func(fr *frame, a []value) value {
		n := a[1].(int)
		if n <= 1 {
			return 0
		}
		k := fr.i.eng.choose(n, nil, "choice "+a[0].(string))
		fr.i.eng.choiceVals[a[0].(string)] = k
		return k
	})
	reg(N+"Assume", func(fr *frame, a []value) value {
		fr.i.eng.Assume(fr.i.termOfBool(a[0]))
		return nil
	})
	reg(N+"Assert", func(fr *frame, a []value) value {
		fr.i.eng.Assert(a[0].(string), fr.i.termOfBool(a[1]))
		return nil
	})
	reg(N+"Fail", func(fr *frame, a []value) value {
		fr.i.eng.Fail(a[0].(string), a[1].(string))
		return nil
	})
	reg(N+"Reach", func(fr *frame, a []value) value {
		fr.i.eng.Reach(a[0].(string))
		return nil
	})
	reg(N+"Tag", func(fr *frame, a []value) value {
		fr.i.eng.Tag(a[0].(string))
		return nil
	})
	reg(N+"Hint", func(fr *frame, a []value) value {
		fr.i.eng.Hint(fr.i.termOfBool(a[0]))
		return nil
	})
	reg(N+"Note", func(fr *frame, a []value) value { return nil })
	reg(N+"And", func(fr *frame, a []value) value {
		c := fr.ctx()
		var ts []*smt.Term
		for _, x := range a[0].([]value) {
			ts = append(ts, fr.i.termOfBool(x))
		}
		return boolVal(c, c.And(ts...))
	})
	reg(N+"Or", func(fr *frame, a []value) value {
		c := fr.ctx()
		var ts []*smt.Term
		for _, x := range a[0].([]value) {
			ts = append(ts, fr.i.termOfBool(x))
		}
		return boolVal(c, c.Or(ts...))
	})
	reg(N+"Not", func(fr *frame, a []value) value {
		c := fr.ctx()
		return boolVal(c, c.Not(fr.i.termOfBool(a[0])))
	})
	reg(N+"Implies", func(fr *frame, a []value) value {
		c := fr.ctx()
		return boolVal(c, c.Implies(fr.i.termOfBool(a[0]), fr.i.termOfBool(a[1])))
	})
	reg(N+"IteInt", func(fr *frame, a []value) value {
		c := fr.ctx()
		return IntV{c.Ite(fr.i.termOfBool(a[0]), intT(a[1]), intT(a[2]))}
	})
	reg(N+"IteDec", func(fr *frame, a []value) value {
		c := fr.ctx()
		return DecV{c.Ite(fr.i.termOfBool(a[0]), decT(a[1]), decT(a[2]))}
	})
	// ExpectInt / ExpectDec record observables predicted by the symbolic run; when a
	// witness is produced they are evaluated under the model and compared natively.
	reg(N+"ObserveInt", func(fr *frame, a []value) value {
		fr.i.eng.Observe(a[0].(string), intT(a[1]))
		return nil
	})
	reg(N+"ObserveDec", func(fr *frame, a []value) value {
		fr.i.eng.Observe(a[0].(string), decT(a[1]))
		return nil
	})
	reg(N+"ObserveBool", func(fr *frame, a []value) value {
		fr.i.eng.Observe(a[0].(string), fr.i.termOfBool(a[1]))
		return nil
	})
	reg(N+"ObserveTime", func(fr *frame, a []value) value {
		fr.i.eng.Observe(a[0].(string), fr.timeT(a[1]))
		return nil
	})

	// ---- codec (A-codec) ----
	cd := "(" + ndPkg + ".Cdc)."
	reg(N+"NewCdc", func(fr *frame, a []value) value {
		t := fr.i.P.HarnessType("Cdc")
		return zero(t)
	})
	marshal := func(fr *frame, msg value) value {
		it := msg.(iface)
		if it.t == nil {
			panic(targetPanic{strPanic("Marshal of nil message")})
		}
		pt, ok := it.t.Underlying().(*types.Pointer)
		if !ok {
			unsupported("Marshal of non-pointer message %s", it.t)
		}
		p := it.v.(*value)
		if p == nil {
			return []value{Blob{T: pt.Elem(), V: nil}}
		}
		return []value{Blob{T: pt.Elem(), V: fr.deepCopy(pt.Elem(), *p, true)}}
	}
	unmarshal := func(fr *frame, bz, msg value) {
		it := msg.(iface)
		pt, ok := it.t.Underlying().(*types.Pointer)
		if !ok {
			unsupported("Unmarshal into non-pointer %s", it.t)
		}
		p := it.v.(*value)
		b := bz.([]value)
		if len(b) == 0 {
			store(pt.Elem(), p, fr.deepCopy(pt.Elem(), zero(pt.Elem()), true))
			return
		}
		blob, ok := b[0].(Blob)
		if !ok || len(b) != 1 {
			unsupported("Unmarshal of raw bytes")
		}
		if !types.Identical(blob.T, pt.Elem()) {
			unsupported("Unmarshal of %s into %s", blob.T, pt.Elem())
		}
		if blob.V == nil {
			store(pt.Elem(), p, fr.deepCopy(pt.Elem(), zero(pt.Elem()), true))
			return
		}
		store(pt.Elem(), p, fr.deepCopy(pt.Elem(), blob.V, true))
	}
	reg(cd+"MustMarshal", func(fr *frame, a []value) value { return marshal(fr, a[1]) })
	reg(cd+"Marshal", func(fr *frame, a []value) value { return tuple{marshal(fr, a[1]), nilErr()} })
	reg(cd+"MustUnmarshal", func(fr *frame, a []value) value { unmarshal(fr, a[1], a[2]); return nil })
	reg(cd+"Unmarshal", func(fr *frame, a []value) value { unmarshal(fr, a[1], a[2]); return nilErr() })
	reg(cd+"UnmarshalInterface", func(fr *frame, a []value) value {
		unsupported("BinaryCodec.UnmarshalInterface (outside A-codec)")
		return nil
	})
}

func init() {
	reg(ndPkg+".Thorough", func(fr *frame, a []value) value { return fr.i.eng.Thorough })
}

func init() {
	N := ndPkg + "."
	reg(N+"NearDec", func(fr *frame, a []value) value {
		c := fr.ctx()
		x, y := decT(a[0]), decT(a[1])
		return boolVal(c, c.Le(c.Abs(c.Sub(x, y)), decT(a[2])))
	})
	reg(N+"EqIdeal", func(fr *frame, a []value) value {
		c := fr.ctx()
		x, y := decT(a[0]), decT(a[1])
		if fr.ideal() {
			return boolVal(c, c.Eq(x, y))
		}
		return boolVal(c, c.Le(c.Abs(c.Sub(x, y)), decT(a[2])))
	})
	reg(N+"LeqDec", func(fr *frame, a []value) value {
		c := fr.ctx()
		x, y := decT(a[0]), decT(a[1])
		return boolVal(c, c.Le(x, c.Add(y, decT(a[2]))))
	})
}

func init() {
	reg(ndPkg+".Overflow", func(fr *frame, a []value) value {
		fr.i.eng.OverflowChecks = a[0].(bool)
		return nil
	})
}

func init() {
	reg(ndPkg+".UFWindow", func(fr *frame, a []value) value {
		fr.i.eng.S.UFWindow = a[0].(int)
		return nil
	})
}
