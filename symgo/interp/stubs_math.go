package interp

// Summaries of cosmossdk.io/math v1.2.0 Int and LegacyDec (DESIGN.md Appendix A).
// exact-Z: LegacyDec = Int term scaled by 10^18, bit-faithful rounding.
// ideal-Q: LegacyDec and Int = Real terms, no rounding; truncation = fresh k with k <= x < k+1.

import (
	"fmt"
	"go/types"
	"math/big"

	"symgo/smt"
)

type stubFn func(fr *frame, args []value) value

var stubs = map[string]stubFn{}

func reg(name string, f stubFn) {
	if _, dup := stubs[name]; dup {
		panic("duplicate stub " + name)
	}
	stubs[name] = f
}

const mathPkg = "cosmossdk.io/math"

func nilDeref(what string) {
	panic(targetPanic{strPanic(what + ": nil pointer dereference (nil math value)")})
}

func (fr *frame) ctx() *smt.Ctx { return fr.i.eng.Ctx }
func (fr *frame) ideal() bool   { return fr.i.eng.Ctx.Ideal }

func intT(v value) *smt.Term {
	x := v.(IntV)
	if x.T == nil {
		nilDeref("math.Int")
	}
	return x.T
}

func decT(v value) *smt.Term {
	x := v.(DecV)
	if x.T == nil {
		nilDeref("math.LegacyDec")
	}
	return x.T
}

// intConst builds an Int value from a big.Int in the current mode.
func (fr *frame) intConst(b *big.Int) IntV {
	if fr.ideal() {
		return IntV{fr.ctx().Real(new(big.Rat).SetInt(b))}
	}
	return IntV{fr.ctx().Int(b)}
}

// decConst builds a Dec value from a rational in the current mode.
func (fr *frame) decConst(r *big.Rat) DecV {
	if fr.ideal() {
		return DecV{fr.ctx().Real(r)}
	}
	s := new(big.Rat).Mul(r, new(big.Rat).SetInt(smt.P18))
	if !s.IsInt() {
		panic("decConst: more than 18 decimals")
	}
	return DecV{fr.ctx().Int(s.Num())}
}

func (fr *frame) p18() *smt.Term { return fr.ctx().Int(smt.P18) }

// goIntTerm: term of a Go integer argument (int64 / uint64), in the current mode's Int sort.
func (fr *frame) goIntTerm(v value) *smt.Term {
	t := fr.i.termOfInt(v)
	return t
}

func (fr *frame) toMode(t *smt.Term) *smt.Term {
	if fr.ideal() {
		return fr.ctx().ToReal(t)
	}
	return t
}

// truncTerm: truncation toward zero of a real-valued term (ideal mode): fresh k.
func (fr *frame) idealTrunc(x *smt.Term) *smt.Term {
	c := fr.ctx()
	if r, ok := x.ConstRat(); ok {
		f := smt.FloorRat(r)
		if r.Sign() < 0 && !r.IsInt() {
			f.Add(f, big.NewInt(1))
		}
		return c.Real(new(big.Rat).SetInt(f))
	}
	// k is a real with k <= x < k+1 (integrality is dropped to stay in QF_NRA); the one thing
	// callers test about a truncated value besides its magnitude - whether it is zero - is
	// pinned: 0 <= x < 1 gives k = 0, x >= 1 gives k >= 1.
	if k, ok := fr.i.eng.truncOf[x]; ok {
		return k
	}
	k := c.Var(fr.i.eng.FreshName("k"), smt.SReal)
	fr.i.eng.truncOf[x] = k
	one := c.Real(big.NewRat(1, 1))
	zero := c.Real(new(big.Rat))
	pos := c.And(c.Le(k, x), c.Lt(x, c.Add(k, one)), c.Implies(c.Lt(x, one), c.Eq(k, zero)), c.Implies(c.Ge(x, one), c.Ge(k, one)))
	neg := c.And(c.Lt(c.Sub(k, one), x), c.Le(x, k), c.Implies(c.Gt(x, c.Neg(one)), c.Eq(k, zero)))
	if x.Lo != nil && x.Lo.Sign() >= 0 {
		fr.i.eng.addPC(pos)
		k.Lo = new(big.Rat)
	} else {
		fr.i.eng.addPC(c.Ite(c.Ge(x, zero), pos, neg))
	}
	// integrality relative to the other integer-valued quantities of the path (symbolic token
	// amounts, earlier truncation results): for integer z, x >= z implies trunc(x) >= z and
	// x < z implies trunc(x) <= z - 1 (for x >= 0). Keeps floor monotone without the Int sort.
	eng := fr.i.eng
	lo := len(eng.intTerms) - 12
	if lo < 0 {
		lo = 0
	}
	var lem []*smt.Term
	for _, z := range eng.intTerms[lo:] {
		lem = append(lem, c.Implies(c.And(c.Ge(x, zero), c.Ge(x, z)), c.Ge(k, z)), c.Implies(c.And(c.Ge(x, zero), c.Lt(x, z)), c.Le(k, c.Sub(z, one))))
	}
	if len(lem) > 0 {
		eng.addPC(c.And(lem...))
	}
	eng.intTerms = append(eng.intTerms, k)
	return k
}

func (fr *frame) divZeroCheck(b *smt.Term, what string) {
	c := fr.ctx()
	z := c.Eq(b, fr.toMode(c.Int64(0)))
	if fr.i.eng.Branch(z, what+" division by zero?") {
		panic(targetPanic{iface{fr.i.runtimeErrorString, "division by zero"}})
	}
}

// overflow checks (exact mode only, when enabled on the engine)
func (fr *frame) ovf(t *smt.Term, bits uint, what string) {
	if fr.ideal() || !fr.i.eng.OverflowChecks {
		return
	}
	c := fr.ctx()
	lim := new(big.Int).Lsh(big.NewInt(1), bits)
	limR := new(big.Rat).SetInt(lim)
	if t.Lo != nil && t.Hi != nil && new(big.Rat).Abs(t.Lo).Cmp(limR) < 0 && new(big.Rat).Abs(t.Hi).Cmp(limR) < 0 {
		return
	}
	over := c.Or(c.Ge(t, c.Int(lim)), c.Le(t, c.Int(new(big.Int).Neg(lim))))
	if fr.i.eng.Branch(over, what+" overflow?") {
		panic(targetPanic{strPanic("Int overflow")})
	}
}

func (fr *frame) decAdd(a, b *smt.Term) *smt.Term {
	r := fr.ctx().Add(a, b)
	fr.ovf(r, 315, "Dec.Add")
	return r
}
func (fr *frame) decSub(a, b *smt.Term) *smt.Term {
	r := fr.ctx().Sub(a, b)
	fr.ovf(r, 315, "Dec.Sub")
	return r
}
func (fr *frame) decMul(a, b *smt.Term) *smt.Term {
	c := fr.ctx()
	if fr.ideal() {
		return c.Mul(a, b)
	}
	r := c.RHE(c.Mul(a, b))
	fr.ovf(r, 315, "Dec.Mul")
	return r
}
func (fr *frame) decMulTrunc(a, b *smt.Term) *smt.Term {
	c := fr.ctx()
	if fr.ideal() {
		return c.Mul(a, b)
	}
	return c.TDiv(c.Mul(a, b), fr.p18())
}
func (fr *frame) decQuo(a, b *smt.Term) *smt.Term {
	c := fr.ctx()
	fr.divZeroCheck(b, "Dec.Quo")
	if fr.ideal() {
		return c.RDiv(a, b)
	}
	r := c.RHE(c.TDiv(c.Mul(a, c.Int(smt.P36)), b))
	fr.ovf(r, 315, "Dec.Quo")
	return r
}
func (fr *frame) decQuoTrunc(a, b *smt.Term) *smt.Term {
	c := fr.ctx()
	fr.divZeroCheck(b, "Dec.QuoTruncate")
	if fr.ideal() {
		return c.RDiv(a, b)
	}
	return c.TDiv(c.TDiv(c.Mul(a, c.Int(smt.P36)), b), fr.p18())
}

func (fr *frame) decPower(a *smt.Term, n uint64) *smt.Term {
	// mirrors LegacyDec.PowerMut
	if n == 0 {
		return fr.decConst(big.NewRat(1, 1)).T
	}
	d := a
	tmp := fr.decConst(big.NewRat(1, 1)).T
	for i := n; i > 1; {
		if i%2 != 0 {
			tmp = fr.decMul(tmp, d)
		}
		i /= 2
		d = fr.decMul(d, d)
	}
	return fr.decMul(d, tmp)
}

// concretize forks over the values 0..max of an integer term; values above
// max make the path an unwinding failure.
func (fr *frame) concretize(t *smt.Term, max int, what string) int64 {
	if v, ok := t.ConstInt(); ok {
		if !v.IsInt64() || v.Int64() > int64(max) && max >= 0 && false {
			unsupported("%s: constant exponent too large", what)
		}
		return v.Int64()
	}
	c := fr.ctx()
	conds := make([]*smt.Term, max+2)
	for k := 0; k <= max; k++ {
		conds[k] = c.Eq(t, c.Int64(int64(k)))
	}
	conds[max+1] = c.Or(c.Gt(t, c.Int64(int64(max))), c.Lt(t, c.Int64(0)))
	fr.i.eng.exactNext = true
	k := fr.i.eng.choose(max+2, conds, what)
	fr.i.eng.exactNext = false
	if k == max+1 {
		panic(abortPath{"unwind", fmt.Sprintf("%s: value outside unrolling bound 0..%d is feasible", what, max)})
	}
	return int64(k)
}

func init() {
	I := "(" + mathPkg + ".Int)."
	D := "(" + mathPkg + ".LegacyDec)."
	F := mathPkg + "."

	cmpI := func(op string) stubFn {
		return func(fr *frame, a []value) value {
			c := fr.ctx()
			x, y := intT(a[0]), intT(a[1])
			return boolVal(c, cmpTerm(c, op, x, y))
		}
	}
	cmpD := func(op string) stubFn {
		return func(fr *frame, a []value) value {
			c := fr.ctx()
			x, y := decT(a[0]), decT(a[1])
			return boolVal(c, cmpTerm(c, op, x, y))
		}
	}
	for _, op := range []string{"Equal", "GT", "GTE", "LT", "LTE"} {
		reg(I+op, cmpI(op))
		reg(D+op, cmpD(op))
	}

	// --- Int constructors ---
	reg(F+"NewInt", func(fr *frame, a []value) value { return IntV{fr.toMode(fr.goIntTerm(a[0]))} })
	reg(F+"NewIntFromUint64", func(fr *frame, a []value) value { return IntV{fr.toMode(fr.goIntTerm(a[0]))} })
	reg(F+"ZeroInt", func(fr *frame, a []value) value { return fr.intConst(big.NewInt(0)) })
	reg(F+"OneInt", func(fr *frame, a []value) value { return fr.intConst(big.NewInt(1)) })
	reg(F+"NewIntFromString", func(fr *frame, a []value) value {
		if t, ok := fr.i.eng.symStrings[a[0].(string)]; ok {
			return tuple{IntV{t}, true}
		}
		b, ok := new(big.Int).SetString(a[0].(string), 10)
		if !ok {
			return tuple{IntV{}, false}
		}
		return tuple{fr.intConst(b), true}
	})
	reg(F+"NewIntWithDecimal", func(fr *frame, a []value) value {
		n, _ := bigOfInt(a[0])
		d, _ := bigOfInt(a[1])
		e := new(big.Int).Exp(big.NewInt(10), d, nil)
		return fr.intConst(e.Mul(e, n))
	})
	reg(F+"MinInt", func(fr *frame, a []value) value {
		c := fr.ctx()
		x, y := intT(a[0]), intT(a[1])
		return IntV{c.Ite(c.Lt(x, y), x, y)}
	})
	reg(F+"MaxInt", func(fr *frame, a []value) value {
		c := fr.ctx()
		x, y := intT(a[0]), intT(a[1])
		return IntV{c.Ite(c.Lt(x, y), y, x)}
	})

	// --- Int methods ---
	reg(I+"IsNil", func(fr *frame, a []value) value { return a[0].(IntV).T == nil })
	reg(I+"IsZero", func(fr *frame, a []value) value {
		c := fr.ctx()
		return boolVal(c, c.Eq(intT(a[0]), fr.toMode(c.Int64(0))))
	})
	reg(I+"IsNegative", func(fr *frame, a []value) value {
		c := fr.ctx()
		return boolVal(c, c.Lt(intT(a[0]), fr.toMode(c.Int64(0))))
	})
	reg(I+"IsPositive", func(fr *frame, a []value) value {
		c := fr.ctx()
		return boolVal(c, c.Gt(intT(a[0]), fr.toMode(c.Int64(0))))
	})
	reg(I+"Sign", func(fr *frame, a []value) value {
		c := fr.ctx()
		x := intT(a[0])
		z := fr.toMode(c.Int64(0))
		if v, ok := x.ConstRat(); ok {
			return v.Sign()
		}
		k := fr.i.eng.choose(3, []*smt.Term{c.Lt(x, z), c.Eq(x, z), c.Gt(x, z)}, "Int.Sign")
		return k - 1
	})
	reg(I+"Add", func(fr *frame, a []value) value {
		r := fr.ctx().Add(intT(a[0]), intT(a[1]))
		fr.ovf(r, 256, "Int.Add")
		return IntV{r}
	})
	reg(I+"Sub", func(fr *frame, a []value) value {
		r := fr.ctx().Sub(intT(a[0]), intT(a[1]))
		fr.ovf(r, 256, "Int.Sub")
		return IntV{r}
	})
	reg(I+"Mul", func(fr *frame, a []value) value {
		r := fr.ctx().Mul(intT(a[0]), intT(a[1]))
		fr.ovf(r, 256, "Int.Mul")
		return IntV{r}
	})
	reg(I+"AddRaw", func(fr *frame, a []value) value {
		return IntV{fr.ctx().Add(intT(a[0]), fr.toMode(fr.goIntTerm(a[1])))}
	})
	reg(I+"SubRaw", func(fr *frame, a []value) value {
		return IntV{fr.ctx().Sub(intT(a[0]), fr.toMode(fr.goIntTerm(a[1])))}
	})
	reg(I+"MulRaw", func(fr *frame, a []value) value {
		return IntV{fr.ctx().Mul(intT(a[0]), fr.toMode(fr.goIntTerm(a[1])))}
	})
	quoI := func(fr *frame, x, y *smt.Term) value {
		c := fr.ctx()
		fr.divZeroCheck(y, "Int.Quo")
		if fr.ideal() {
			return IntV{fr.idealTrunc(c.RDiv(x, y))}
		}
		return IntV{c.TDiv(x, y)}
	}
	reg(I+"Quo", func(fr *frame, a []value) value { return quoI(fr, intT(a[0]), intT(a[1])) })
	reg(I+"QuoRaw", func(fr *frame, a []value) value {
		return quoI(fr, intT(a[0]), fr.toMode(fr.goIntTerm(a[1])))
	})
	reg(I+"Neg", func(fr *frame, a []value) value { return IntV{fr.ctx().Neg(intT(a[0]))} })
	reg(I+"Abs", func(fr *frame, a []value) value { return IntV{fr.ctx().Abs(intT(a[0]))} })
	reg(I+"ToLegacyDec", func(fr *frame, a []value) value { return fr.decFromInt(intT(a[0])) })
	reg(I+"String", func(fr *frame, a []value) value {
		x := a[0].(IntV)
		if x.T == nil {
			return "0"
		}
		if v, ok := x.T.ConstRat(); ok {
			return ratString(v)
		}
		// a symbolic integer prints as a tag that NewIntFromString maps back to the same term
		fr.i.eng.symStrings["<sym:"+fmt.Sprint(x.T.ID)+">"] = x.T
		return "<sym:" + fmt.Sprint(x.T.ID) + ">"
	})
	reg(I+"Int64", func(fr *frame, a []value) value {
		x := intT(a[0])
		if fr.ideal() {
			unsupported("Int.Int64 in ideal mode")
		}
		return mkIntT(types.Int64, x)
	})
	reg(I+"Uint64", func(fr *frame, a []value) value {
		x := intT(a[0])
		if fr.ideal() {
			unsupported("Int.Uint64 in ideal mode")
		}
		return mkIntT(types.Uint64, x)
	})
	reg(I+"IsInt64", func(fr *frame, a []value) value {
		c := fr.ctx()
		x := intT(a[0])
		lim := new(big.Int).Lsh(big.NewInt(1), 63)
		return boolVal(c, c.And(c.Ge(x, fr.toMode(c.Int(new(big.Int).Neg(lim)))), c.Lt(x, fr.toMode(c.Int(lim)))))
	})

	// --- Dec constructors ---
	reg(F+"LegacyZeroDec", func(fr *frame, a []value) value { return fr.decConst(new(big.Rat)) })
	reg(F+"LegacyOneDec", func(fr *frame, a []value) value { return fr.decConst(big.NewRat(1, 1)) })
	reg(F+"LegacySmallestDec", func(fr *frame, a []value) value {
		return fr.decConst(new(big.Rat).SetFrac(big.NewInt(1), smt.P18))
	})
	reg(F+"LegacyNewDec", func(fr *frame, a []value) value { return fr.decFromInt(fr.toMode(fr.goIntTerm(a[0]))) })
	reg(F+"LegacyNewDecFromInt", func(fr *frame, a []value) value { return fr.decFromInt(intT(a[0])) })
	reg(F+"LegacyNewDecWithPrec", func(fr *frame, a []value) value {
		n, ok := bigOfInt(a[0])
		p, ok2 := bigOfInt(a[1])
		if !ok || !ok2 {
			unsupported("LegacyNewDecWithPrec with symbolic arguments")
		}
		if p.Int64() > 18 || p.Int64() < 0 {
			panic(targetPanic{strPanic(fmt.Sprintf("too much precision, maximum 18, provided %d", p.Int64()))})
		}
		den := new(big.Int).Exp(big.NewInt(10), p, nil)
		return fr.decConst(new(big.Rat).SetFrac(n, den))
	})
	reg(F+"LegacyNewDecFromIntWithPrec", func(fr *frame, a []value) value {
		p, ok := bigOfInt(a[1])
		if !ok {
			unsupported("LegacyNewDecFromIntWithPrec with symbolic precision")
		}
		if p.Int64() > 18 || p.Int64() < 0 {
			panic(targetPanic{strPanic(fmt.Sprintf("too much precision, maximum 18, provided %d", p.Int64()))})
		}
		c := fr.ctx()
		x := intT(a[0])
		if fr.ideal() {
			den := new(big.Int).Exp(big.NewInt(10), p, nil)
			return DecV{c.Mul(c.Real(new(big.Rat).SetFrac(big.NewInt(1), den)), x)}
		}
		m := new(big.Int).Exp(big.NewInt(10), big.NewInt(18-p.Int64()), nil)
		return DecV{c.Mul(c.Int(m), x)}
	})
	parseDec := func(fr *frame, s string) (DecV, bool) {
		r, ok := new(big.Rat).SetString(s)
		if !ok {
			return DecV{}, false
		}
		sc := new(big.Rat).Mul(r, new(big.Rat).SetInt(smt.P18))
		if !sc.IsInt() {
			return DecV{}, false
		}
		return fr.decConst(r), true
	}
	reg(F+"LegacyMustNewDecFromStr", func(fr *frame, a []value) value {
		d, ok := parseDec(fr, a[0].(string))
		if !ok {
			panic(targetPanic{strPanic("LegacyMustNewDecFromStr: invalid decimal " + a[0].(string))})
		}
		return d
	})
	reg(F+"LegacyNewDecFromStr", func(fr *frame, a []value) value {
		d, ok := parseDec(fr, a[0].(string))
		if !ok {
			return tuple{DecV{}, fr.i.opaqueErr("math.ErrLegacyInvalidDecimalStr")}
		}
		return tuple{d, iface{}}
	})
	reg(F+"LegacyMinDec", func(fr *frame, a []value) value {
		c := fr.ctx()
		x, y := decT(a[0]), decT(a[1])
		return DecV{c.Ite(c.Lt(x, y), x, y)}
	})
	reg(F+"LegacyMaxDec", func(fr *frame, a []value) value {
		c := fr.ctx()
		x, y := decT(a[0]), decT(a[1])
		return DecV{c.Ite(c.Lt(x, y), y, x)}
	})

	// --- Dec methods ---
	reg(D+"IsNil", func(fr *frame, a []value) value { return a[0].(DecV).T == nil })
	zeroD := func(fr *frame) *smt.Term { return fr.toMode(fr.ctx().Int64(0)) }
	reg(D+"IsZero", func(fr *frame, a []value) value {
		c := fr.ctx()
		return boolVal(c, c.Eq(decT(a[0]), zeroD(fr)))
	})
	reg(D+"IsNegative", func(fr *frame, a []value) value {
		c := fr.ctx()
		return boolVal(c, c.Lt(decT(a[0]), zeroD(fr)))
	})
	reg(D+"IsPositive", func(fr *frame, a []value) value {
		c := fr.ctx()
		return boolVal(c, c.Gt(decT(a[0]), zeroD(fr)))
	})
	reg(D+"Neg", func(fr *frame, a []value) value { return DecV{fr.ctx().Neg(decT(a[0]))} })
	reg(D+"Abs", func(fr *frame, a []value) value { return DecV{fr.ctx().Abs(decT(a[0]))} })
	reg(D+"Clone", func(fr *frame, a []value) value { return DecV{decT(a[0])} })
	reg(D+"Add", func(fr *frame, a []value) value { return DecV{fr.decAdd(decT(a[0]), decT(a[1]))} })
	reg(D+"Sub", func(fr *frame, a []value) value { return DecV{fr.decSub(decT(a[0]), decT(a[1]))} })
	reg(D+"Mul", func(fr *frame, a []value) value { return DecV{fr.decMul(decT(a[0]), decT(a[1]))} })
	reg(D+"MulTruncate", func(fr *frame, a []value) value { return DecV{fr.decMulTrunc(decT(a[0]), decT(a[1]))} })
	reg(D+"MulInt", func(fr *frame, a []value) value {
		r := fr.ctx().Mul(decT(a[0]), intT(a[1]))
		fr.ovf(r, 315, "Dec.MulInt")
		return DecV{r}
	})
	reg(D+"MulInt64", func(fr *frame, a []value) value {
		r := fr.ctx().Mul(decT(a[0]), fr.toMode(fr.goIntTerm(a[1])))
		fr.ovf(r, 315, "Dec.MulInt64")
		return DecV{r}
	})
	reg(D+"Quo", func(fr *frame, a []value) value { return DecV{fr.decQuo(decT(a[0]), decT(a[1]))} })
	reg(D+"QuoTruncate", func(fr *frame, a []value) value { return DecV{fr.decQuoTrunc(decT(a[0]), decT(a[1]))} })
	quoInt := func(fr *frame, x, y *smt.Term) value {
		c := fr.ctx()
		fr.divZeroCheck(y, "Dec.QuoInt")
		if fr.ideal() {
			return DecV{c.RDiv(x, y)}
		}
		return DecV{c.TDiv(x, y)}
	}
	reg(D+"QuoInt", func(fr *frame, a []value) value { return quoInt(fr, decT(a[0]), intT(a[1])) })
	reg(D+"QuoInt64", func(fr *frame, a []value) value {
		return quoInt(fr, decT(a[0]), fr.toMode(fr.goIntTerm(a[1])))
	})
	reg(D+"Power", func(fr *frame, a []value) value {
		x := decT(a[0])
		var n int64
		if s, ok := a[1].(SymInt); ok {
			n = fr.concretize(s.T, fr.i.eng.Lim.MaxPower, "LegacyDec.Power exponent")
		} else {
			b, _ := bigOfInt(a[1])
			if !b.IsInt64() || b.Int64() > 4096 {
				panic(abortPath{"unwind", "LegacyDec.Power: concrete exponent beyond 4096"})
			}
			n = b.Int64()
		}
		return DecV{fr.decPower(x, uint64(n))}
	})
	reg(D+"TruncateInt", func(fr *frame, a []value) value {
		x := decT(a[0])
		if fr.ideal() {
			return IntV{fr.idealTrunc(x)}
		}
		return IntV{fr.ctx().TDiv(x, fr.p18())}
	})
	reg(D+"TruncateDec", func(fr *frame, a []value) value {
		x := decT(a[0])
		if fr.ideal() {
			return DecV{fr.idealTrunc(x)}
		}
		c := fr.ctx()
		return DecV{c.Mul(fr.p18(), c.TDiv(x, fr.p18()))}
	})
	reg(D+"Ceil", func(fr *frame, a []value) value {
		// smallest integer-valued Dec >= x: x + ((-x) mod 10^18), Euclidean mod
		x := decT(a[0])
		c := fr.ctx()
		if fr.ideal() {
			// a real k with k-1 < x <= k (integrality dropped as for truncation); zero and
			// the first unit are pinned: -1 < x <= 0 gives 0, x > 0 gives k >= 1
			if k, ok := fr.i.eng.ceilOf[x]; ok {
				return DecV{k}
			}
			k := c.Var(fr.i.eng.FreshName("kc"), smt.SReal)
			fr.i.eng.ceilOf[x] = k
			one := c.Real(big.NewRat(1, 1))
			zero := c.Real(new(big.Rat))
			fr.i.eng.addPC(c.And(c.Lt(c.Sub(k, one), x), c.Le(x, k),
				c.Implies(c.And(c.Gt(x, c.Neg(one)), c.Le(x, zero)), c.Eq(k, zero)), c.Implies(c.Gt(x, zero), c.Ge(k, one))))
			return DecV{k}
		}
		return DecV{c.Add(x, c.EMod(c.Neg(x), fr.p18()))}
	})
	reg(D+"RoundInt", func(fr *frame, a []value) value {
		x := decT(a[0])
		if fr.ideal() {
			unsupported("Dec.RoundInt in ideal mode")
		}
		return IntV{fr.ctx().RHE(x)}
	})
	reg(D+"TruncateInt64", func(fr *frame, a []value) value {
		x := decT(a[0])
		if fr.ideal() {
			unsupported("Dec.TruncateInt64 in ideal mode")
		}
		return mkIntT(types.Int64, fr.ctx().TDiv(x, fr.p18()))
	})
	reg(D+"IsInteger", func(fr *frame, a []value) value {
		x := decT(a[0])
		if fr.ideal() {
			unsupported("Dec.IsInteger in ideal mode")
		}
		c := fr.ctx()
		return boolVal(c, c.Eq(c.EMod(x, fr.p18()), c.Int64(0)))
	})
	reg(D+"String", func(fr *frame, a []value) value {
		x := a[0].(DecV)
		if x.T == nil {
			return "<nil>"
		}
		if v, ok := x.T.ConstRat(); ok {
			if !fr.ideal() {
				return new(big.Rat).Quo(v, new(big.Rat).SetInt(smt.P18)).FloatString(18)
			}
			return v.FloatString(18)
		}
		return "<sym:" + fmt.Sprint(x.T.ID) + ">"
	})
	reg(D+"Format", func(fr *frame, a []value) value { return nil })
}

func (fr *frame) decFromInt(x *smt.Term) DecV {
	if fr.ideal() {
		return DecV{x}
	}
	r := fr.ctx().Mul(fr.p18(), x)
	fr.ovf(r, 315, "NewDecFromInt")
	return DecV{r}
}

func cmpTerm(c *smt.Ctx, op string, x, y *smt.Term) *smt.Term {
	switch op {
	case "Equal":
		return c.Eq(x, y)
	case "GT":
		return c.Gt(x, y)
	case "GTE":
		return c.Ge(x, y)
	case "LT":
		return c.Lt(x, y)
	case "LTE":
		return c.Le(x, y)
	}
	panic(op)
}
