package interp

// Minimal bech32 (BIP-173) with 8<->5 bit conversion, as used by cosmos-sdk addresses.

import (
	"fmt"
	"strings"
)

const bech32Charset = "qpzry9x8gf2tvdw0s3jn54khce6mua7l"

var bech32Gen = []int{0x3b6a57b2, 0x26508e6d, 0x1ea119fa, 0x3d4233dd, 0x2a1462b3}

func bech32Polymod(values []int) int {
	chk := 1
	for _, v := range values {
		b := chk >> 25
		chk = (chk&0x1ffffff)<<5 ^ v
		for i := 0; i < 5; i++ {
			if (b>>uint(i))&1 == 1 {
				chk ^= bech32Gen[i]
			}
		}
	}
	return chk
}

func bech32HrpExpand(hrp string) []int {
	var out []int
	for i := 0; i < len(hrp); i++ {
		out = append(out, int(hrp[i]>>5))
	}
	out = append(out, 0)
	for i := 0; i < len(hrp); i++ {
		out = append(out, int(hrp[i]&31))
	}
	return out
}

func convertBits(data []byte, from, to uint, pad bool) ([]byte, error) {
	acc, bits := 0, uint(0)
	var out []byte
	maxv := (1 << to) - 1
	for _, b := range data {
		if int(b)>>from != 0 {
			return nil, fmt.Errorf("invalid data range")
		}
		acc = acc<<from | int(b)
		bits += from
		for bits >= to {
			bits -= to
			out = append(out, byte(acc>>bits&maxv))
		}
	}
	if pad {
		if bits > 0 {
			out = append(out, byte(acc<<(to-bits)&maxv))
		}
	} else if bits >= from || (acc<<(to-bits))&maxv != 0 {
		return nil, fmt.Errorf("invalid padding")
	}
	return out, nil
}

func bech32Encode(hrp string, data []byte) string {
	d5, _ := convertBits(data, 8, 5, true)
	values := bech32HrpExpand(hrp)
	for _, b := range d5 {
		values = append(values, int(b))
	}
	values = append(values, 0, 0, 0, 0, 0, 0)
	pm := bech32Polymod(values) ^ 1
	var sb strings.Builder
	sb.WriteString(hrp)
	sb.WriteByte('1')
	for _, b := range d5 {
		sb.WriteByte(bech32Charset[b])
	}
	for i := 0; i < 6; i++ {
		sb.WriteByte(bech32Charset[(pm>>uint(5*(5-i)))&31])
	}
	return sb.String()
}

func bech32Decode(s string) (string, []byte, error) {
	if len(s) < 8 || len(s) > 1023 {
		return "", nil, fmt.Errorf("invalid bech32 string length")
	}
	if strings.ToLower(s) != s && strings.ToUpper(s) != s {
		return "", nil, fmt.Errorf("mixed case")
	}
	s = strings.ToLower(s)
	pos := strings.LastIndexByte(s, '1')
	if pos < 1 || pos+7 > len(s) {
		return "", nil, fmt.Errorf("invalid separator position")
	}
	hrp := s[:pos]
	values := bech32HrpExpand(hrp)
	var d5 []byte
	for i := pos + 1; i < len(s); i++ {
		k := strings.IndexByte(bech32Charset, s[i])
		if k < 0 {
			return "", nil, fmt.Errorf("invalid character")
		}
		d5 = append(d5, byte(k))
		values = append(values, k)
	}
	if bech32Polymod(values) != 1 {
		return "", nil, fmt.Errorf("invalid checksum")
	}
	d5 = d5[:len(d5)-6]
	d8, err := convertBits(d5, 5, 8, false)
	if err != nil {
		return "", nil, err
	}
	return hrp, d8, nil
}
