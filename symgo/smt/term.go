// Package smt: hash-consed SMT terms with constant folding, an SMT-LIB2 printer
// and a persistent solver process.
package smt

import (
	"fmt"
	"math/big"
	"sort"
	"strings"
)

type Sort int

const (
	SInt Sort = iota
	SBool
	SReal
)

func (s Sort) String() string {
	switch s {
	case SInt:
		return "Int"
	case SBool:
		return "Bool"
	}
	return "Real"
}

type Term struct {
	Op   string // "c" const, "v" var, or SMT operator / prelude function name
	Sort Sort
	Args []*Term
	Int  *big.Int // const Int
	Rat  *big.Rat // const Real
	B    bool     // const Bool
	Name string   // var name
	ID   int
	C    *Ctx
	size int
	// conservative interval for Int/Real terms (nil = unbounded)
	Lo, Hi *big.Rat
}

type Ctx struct {
	tab   map[string]*Term
	next  int
	Vars  []*Term // declared variables in declaration order
	varBy map[string]*Term
	Ideal bool // ideal-Q arithmetic mode: Dec/Int library values are Reals
}

func NewCtx() *Ctx {
	return &Ctx{tab: map[string]*Term{}, varBy: map[string]*Term{}}
}

var (
	P18 = new(big.Int).Exp(big.NewInt(10), big.NewInt(18), nil)
	P36 = new(big.Int).Exp(big.NewInt(10), big.NewInt(36), nil)
)

func (c *Ctx) intern(t *Term) *Term {
	var sb strings.Builder
	sb.WriteString(t.Op)
	sb.WriteByte('|')
	sb.WriteString(t.Sort.String())
	sb.WriteByte('|')
	switch t.Op {
	case "c":
		switch t.Sort {
		case SInt:
			sb.WriteString(t.Int.String())
		case SReal:
			sb.WriteString(t.Rat.String())
		case SBool:
			fmt.Fprint(&sb, t.B)
		}
	case "v":
		sb.WriteString(t.Name)
	default:
		for _, a := range t.Args {
			fmt.Fprintf(&sb, "%d,", a.ID)
		}
	}
	k := sb.String()
	if old, ok := c.tab[k]; ok {
		return old
	}
	c.next++
	t.ID = c.next
	t.C = c
	t.size = 1
	for _, a := range t.Args {
		t.size += a.size
	}
	c.computeBounds(t)
	c.tab[k] = t
	return t
}

func (c *Ctx) Int(v *big.Int) *Term {
	return c.intern(&Term{Op: "c", Sort: SInt, Int: new(big.Int).Set(v)})
}
func (c *Ctx) Int64(v int64) *Term { return c.Int(big.NewInt(v)) }
func (c *Ctx) Real(v *big.Rat) *Term {
	return c.intern(&Term{Op: "c", Sort: SReal, Rat: new(big.Rat).Set(v)})
}
func (c *Ctx) Bool(b bool) *Term { return c.intern(&Term{Op: "c", Sort: SBool, B: b}) }
func (c *Ctx) True() *Term       { return c.Bool(true) }
func (c *Ctx) False() *Term      { return c.Bool(false) }

// Var declares (or returns) a variable.
func (c *Ctx) Var(name string, s Sort) *Term {
	if v, ok := c.varBy[name]; ok {
		if v.Sort != s {
			panic("smt: variable " + name + " redeclared with different sort")
		}
		return v
	}
	v := c.intern(&Term{Op: "v", Sort: s, Name: name})
	c.varBy[name] = v
	c.Vars = append(c.Vars, v)
	return v
}

func (c *Ctx) LookupVar(name string) *Term { return c.varBy[name] }

// SetRange records a conservative interval for a variable (used only for cheap
// syntactic pruning; the solver sees the range as an explicit assumption).
func (c *Ctx) SetRange(v *Term, lo, hi *big.Int) {
	if lo != nil {
		v.Lo = new(big.Rat).SetInt(lo)
	}
	if hi != nil {
		v.Hi = new(big.Rat).SetInt(hi)
	}
}

func (t *Term) IsConst() bool { return t.Op == "c" }

func (t *Term) ConstInt() (*big.Int, bool) {
	if t.Op == "c" && t.Sort == SInt {
		return t.Int, true
	}
	return nil, false
}

func (t *Term) ConstBool() (bool, bool) {
	if t.Op == "c" && t.Sort == SBool {
		return t.B, true
	}
	return false, false
}

func (t *Term) ConstRat() (*big.Rat, bool) {
	if t.Op == "c" {
		if t.Sort == SReal {
			return t.Rat, true
		}
		if t.Sort == SInt {
			return new(big.Rat).SetInt(t.Int), true
		}
	}
	return nil, false
}

func (c *Ctx) mk(op string, s Sort, args ...*Term) *Term {
	return c.intern(&Term{Op: op, Sort: s, Args: args})
}

// ---------- arithmetic (sort-generic over Int / Real) ----------

func (c *Ctx) num(s Sort, v int64) *Term {
	if s == SReal {
		return c.Real(big.NewRat(v, 1))
	}
	return c.Int64(v)
}

func (c *Ctx) isZero(t *Term) bool {
	if r, ok := t.ConstRat(); ok {
		return r.Sign() == 0
	}
	return false
}
func (c *Ctx) isOne(t *Term) bool {
	if r, ok := t.ConstRat(); ok {
		return r.Cmp(big.NewRat(1, 1)) == 0
	}
	return false
}

func (c *Ctx) constOf(s Sort, r *big.Rat) *Term {
	if s == SReal {
		return c.Real(r)
	}
	if !r.IsInt() {
		panic("smt: non-integer constant for Int sort")
	}
	return c.Int(r.Num())
}

func (c *Ctx) Add(a, b *Term) *Term {
	a, b = c.unify(a, b)
	ra, oka := a.ConstRat()
	rb, okb := b.ConstRat()
	if oka && okb {
		return c.constOf(a.Sort, new(big.Rat).Add(ra, rb))
	}
	if oka && ra.Sign() == 0 {
		return b
	}
	if okb && rb.Sign() == 0 {
		return a
	}
	return c.mk("+", a.Sort, a, b)
}

func (c *Ctx) Sub(a, b *Term) *Term {
	a, b = c.unify(a, b)
	ra, oka := a.ConstRat()
	rb, okb := b.ConstRat()
	if oka && okb {
		return c.constOf(a.Sort, new(big.Rat).Sub(ra, rb))
	}
	if okb && rb.Sign() == 0 {
		return a
	}
	if a == b {
		return c.num(a.Sort, 0)
	}
	return c.mk("-", a.Sort, a, b)
}

func (c *Ctx) Neg(a *Term) *Term { return c.Sub(c.num(a.Sort, 0), a) }

func (c *Ctx) Mul(a, b *Term) *Term {
	a, b = c.unify(a, b)
	ra, oka := a.ConstRat()
	rb, okb := b.ConstRat()
	if oka && okb {
		return c.constOf(a.Sort, new(big.Rat).Mul(ra, rb))
	}
	if oka && ra.Sign() == 0 || okb && rb.Sign() == 0 {
		return c.num(a.Sort, 0)
	}
	if c.isOne(a) {
		return b
	}
	if c.isOne(b) {
		return a
	}
	if okb { // constants first (canonical)
		a, b = b, a
	}
	return c.mk("*", a.Sort, a, b)
}

// RDiv is exact real division (b != 0 is the caller's obligation).
func (c *Ctx) RDiv(a, b *Term) *Term {
	a, b = c.ToReal(a), c.ToReal(b)
	ra, oka := a.ConstRat()
	rb, okb := b.ConstRat()
	if okb && rb.Sign() != 0 {
		if oka {
			return c.Real(new(big.Rat).Quo(ra, rb))
		}
		return c.Mul(c.Real(new(big.Rat).Inv(rb)), a)
	}
	if oka && ra.Sign() == 0 {
		return a
	}
	return c.mk("/", SReal, a, b)
}

func (c *Ctx) ToReal(a *Term) *Term {
	if a.Sort == SReal {
		return a
	}
	if v, ok := a.ConstInt(); ok {
		return c.Real(new(big.Rat).SetInt(v))
	}
	return c.mk("to_real", SReal, a)
}

// ToInt: floor of a real term (SMT-LIB to_int).
func (c *Ctx) ToInt(a *Term) *Term {
	if a.Sort == SInt {
		return a
	}
	if r, ok := a.ConstRat(); ok {
		return c.Int(FloorRat(r))
	}
	if a.Op == "to_real" {
		return a.Args[0]
	}
	return c.mk("to_int", SInt, a)
}

func (c *Ctx) unify(a, b *Term) (*Term, *Term) {
	if a.Sort == b.Sort {
		return a, b
	}
	return c.ToReal(a), c.ToReal(b)
}

// EDiv / EMod: SMT-LIB Euclidean div/mod (b constant non-zero folding only).
func (c *Ctx) EDiv(a, b *Term) *Term {
	va, oka := a.ConstInt()
	vb, okb := b.ConstInt()
	if oka && okb && vb.Sign() != 0 {
		q, _ := new(big.Int).DivMod(va, vb, new(big.Int))
		return c.Int(q)
	}
	return c.mk("div", SInt, a, b)
}
func (c *Ctx) EMod(a, b *Term) *Term {
	va, oka := a.ConstInt()
	vb, okb := b.ConstInt()
	if oka && okb && vb.Sign() != 0 {
		_, m := new(big.Int).DivMod(va, vb, new(big.Int))
		return c.Int(m)
	}
	return c.mk("mod", SInt, a, b)
}

// TDiv: truncated division (Go / and big.Int.Quo). Prelude function tdiv.
func (c *Ctx) TDiv(a, b *Term) *Term {
	va, oka := a.ConstInt()
	vb, okb := b.ConstInt()
	if oka && okb && vb.Sign() != 0 {
		return c.Int(new(big.Int).Quo(va, vb))
	}
	if okb && vb.Cmp(big.NewInt(1)) == 0 {
		return a
	}
	if oka && va.Sign() == 0 {
		return a
	}
	return c.mk("tdiv", SInt, a, b)
}

// TRem: truncated remainder (Go %).
func (c *Ctx) TRem(a, b *Term) *Term {
	va, oka := a.ConstInt()
	vb, okb := b.ConstInt()
	if oka && okb && vb.Sign() != 0 {
		return c.Int(new(big.Int).Rem(va, vb))
	}
	return c.Sub(a, c.Mul(b, c.TDiv(a, b)))
}

// RHE: chopPrecisionAndRound of cosmossdk.io/math (divide by 10^18, round half even).
func RHEBig(x *big.Int) *big.Int {
	neg := x.Sign() < 0
	ax := new(big.Int).Abs(x)
	q, r := new(big.Int).QuoRem(ax, P18, new(big.Int))
	r2 := new(big.Int).Lsh(r, 1)
	switch r2.Cmp(P18) {
	case 1:
		q.Add(q, big.NewInt(1))
	case 0:
		if q.Bit(0) == 1 {
			q.Add(q, big.NewInt(1))
		}
	}
	if neg {
		q.Neg(q)
	}
	return q
}

func (c *Ctx) RHE(x *Term) *Term {
	if v, ok := x.ConstInt(); ok {
		return c.Int(RHEBig(v))
	}
	// x = y * 10^18  (y any term)  => y exactly
	if x.Op == "*" {
		if v, ok := x.Args[0].ConstInt(); ok && v.Cmp(P18) == 0 {
			return x.Args[1]
		}
	}
	return c.mk("rhe", SInt, x)
}

func (c *Ctx) Abs(x *Term) *Term {
	if r, ok := x.ConstRat(); ok {
		return c.constOf(x.Sort, new(big.Rat).Abs(r))
	}
	if x.Lo != nil && x.Lo.Sign() >= 0 {
		return x
	}
	return c.Ite(c.Ge(x, c.num(x.Sort, 0)), x, c.Neg(x))
}

// ---------- comparisons ----------

func (c *Ctx) cmp(op string, a, b *Term) *Term {
	a, b = c.unify(a, b)
	ra, oka := a.ConstRat()
	rb, okb := b.ConstRat()
	if oka && okb {
		k := ra.Cmp(rb)
		switch op {
		case "<":
			return c.Bool(k < 0)
		case "<=":
			return c.Bool(k <= 0)
		case "=":
			return c.Bool(k == 0)
		}
	}
	if a == b {
		return c.Bool(op != "<")
	}
	// interval pruning
	if a.Hi != nil && b.Lo != nil {
		k := a.Hi.Cmp(b.Lo)
		if op == "<" && k < 0 || op == "<=" && k <= 0 {
			return c.True()
		}
		if op == "=" && k < 0 {
			return c.False()
		}
	}
	if a.Lo != nil && b.Hi != nil {
		k := a.Lo.Cmp(b.Hi)
		if op == "<" && k >= 0 || op == "<=" && k > 0 {
			return c.False()
		}
		if op == "=" && k > 0 {
			return c.False()
		}
	}
	if op == "=" && a.ID > b.ID {
		a, b = b, a
	}
	return c.mk(op, SBool, a, b)
}

func (c *Ctx) Lt(a, b *Term) *Term { return c.cmp("<", a, b) }
func (c *Ctx) Le(a, b *Term) *Term { return c.cmp("<=", a, b) }
func (c *Ctx) Gt(a, b *Term) *Term { return c.cmp("<", b, a) }
func (c *Ctx) Ge(a, b *Term) *Term { return c.cmp("<=", b, a) }
func (c *Ctx) Eq(a, b *Term) *Term {
	if a.Sort == SBool && b.Sort == SBool {
		if a == b {
			return c.True()
		}
		if v, ok := a.ConstBool(); ok {
			if v {
				return b
			}
			return c.Not(b)
		}
		if v, ok := b.ConstBool(); ok {
			if v {
				return a
			}
			return c.Not(a)
		}
		return c.mk("=", SBool, a, b)
	}
	return c.cmp("=", a, b)
}
func (c *Ctx) Ne(a, b *Term) *Term { return c.Not(c.Eq(a, b)) }

// ---------- booleans ----------

func (c *Ctx) Not(a *Term) *Term {
	if v, ok := a.ConstBool(); ok {
		return c.Bool(!v)
	}
	if a.Op == "not" {
		return a.Args[0]
	}
	return c.mk("not", SBool, a)
}

func (c *Ctx) And(xs ...*Term) *Term {
	var out []*Term
	seen := map[*Term]bool{}
	for _, x := range xs {
		if v, ok := x.ConstBool(); ok {
			if !v {
				return c.False()
			}
			continue
		}
		if x.Op == "and" {
			for _, y := range x.Args {
				if !seen[y] {
					seen[y] = true
					out = append(out, y)
				}
			}
			continue
		}
		if !seen[x] {
			seen[x] = true
			out = append(out, x)
		}
	}
	for _, x := range out {
		if seen[c.Not(x)] && c.Not(x) != x {
			return c.False()
		}
	}
	switch len(out) {
	case 0:
		return c.True()
	case 1:
		return out[0]
	}
	return c.mk("and", SBool, out...)
}

func (c *Ctx) Or(xs ...*Term) *Term {
	var out []*Term
	seen := map[*Term]bool{}
	for _, x := range xs {
		if v, ok := x.ConstBool(); ok {
			if v {
				return c.True()
			}
			continue
		}
		if x.Op == "or" {
			for _, y := range x.Args {
				if !seen[y] {
					seen[y] = true
					out = append(out, y)
				}
			}
			continue
		}
		if !seen[x] {
			seen[x] = true
			out = append(out, x)
		}
	}
	switch len(out) {
	case 0:
		return c.False()
	case 1:
		return out[0]
	}
	return c.mk("or", SBool, out...)
}

func (c *Ctx) Implies(a, b *Term) *Term { return c.Or(c.Not(a), b) }

func (c *Ctx) Ite(cond, a, b *Term) *Term {
	if v, ok := cond.ConstBool(); ok {
		if v {
			return a
		}
		return b
	}
	if a == b {
		return a
	}
	if a.Sort != b.Sort {
		a, b = c.unify(a, b)
	}
	if a.Sort == SBool {
		return c.Or(c.And(cond, a), c.And(c.Not(cond), b))
	}
	return c.mk("ite", a.Sort, cond, a, b)
}

// Floor for reals (ideal mode uses fresh variables instead; this is for constants).
func FloorRat(r *big.Rat) *big.Int {
	q := new(big.Int)
	m := new(big.Int)
	q.DivMod(r.Num(), r.Denom(), m) // Euclidean: floor for positive denominators
	return q
}

// ---------- bounds ----------

func ratMin(a, b *big.Rat) *big.Rat {
	if a.Cmp(b) <= 0 {
		return a
	}
	return b
}
func ratMax(a, b *big.Rat) *big.Rat {
	if a.Cmp(b) >= 0 {
		return a
	}
	return b
}

func (c *Ctx) computeBounds(t *Term) {
	switch t.Op {
	case "c":
		if t.Sort == SInt {
			t.Lo = new(big.Rat).SetInt(t.Int)
			t.Hi = t.Lo
		} else if t.Sort == SReal {
			t.Lo, t.Hi = t.Rat, t.Rat
		}
	case "+":
		a, b := t.Args[0], t.Args[1]
		if a.Lo != nil && b.Lo != nil {
			t.Lo = new(big.Rat).Add(a.Lo, b.Lo)
		}
		if a.Hi != nil && b.Hi != nil {
			t.Hi = new(big.Rat).Add(a.Hi, b.Hi)
		}
	case "-":
		a, b := t.Args[0], t.Args[1]
		if a.Lo != nil && b.Hi != nil {
			t.Lo = new(big.Rat).Sub(a.Lo, b.Hi)
		}
		if a.Hi != nil && b.Lo != nil {
			t.Hi = new(big.Rat).Sub(a.Hi, b.Lo)
		}
	case "*":
		a, b := t.Args[0], t.Args[1]
		if a.Lo != nil && a.Hi != nil && b.Lo != nil && b.Hi != nil {
			p := []*big.Rat{
				new(big.Rat).Mul(a.Lo, b.Lo), new(big.Rat).Mul(a.Lo, b.Hi),
				new(big.Rat).Mul(a.Hi, b.Lo), new(big.Rat).Mul(a.Hi, b.Hi),
			}
			lo, hi := p[0], p[0]
			for _, x := range p[1:] {
				lo, hi = ratMin(lo, x), ratMax(hi, x)
			}
			t.Lo, t.Hi = lo, hi
		} else if a.Lo != nil && a.Lo.Sign() >= 0 && b.Lo != nil && b.Lo.Sign() >= 0 {
			t.Lo = new(big.Rat).Mul(a.Lo, b.Lo)
		}
	case "tdiv", "div":
		a, b := t.Args[0], t.Args[1]
		// only the common case: a >= 0, b > 0  => 0 <= res <= a.Hi / b.Lo
		if a.Lo != nil && a.Lo.Sign() >= 0 && b.Lo != nil && b.Lo.Sign() > 0 {
			t.Lo = new(big.Rat)
			if a.Hi != nil {
				t.Hi = new(big.Rat).SetInt(FloorRat(new(big.Rat).Quo(a.Hi, b.Lo)))
			}
		}
	case "rhe":
		a := t.Args[0]
		p := new(big.Rat).SetInt(P18)
		if a.Lo != nil {
			t.Lo = new(big.Rat).SetInt(RHEBig(FloorRat(a.Lo)))
			_ = p
		}
		if a.Hi != nil {
			h := FloorRat(a.Hi)
			t.Hi = new(big.Rat).SetInt(RHEBig(h))
		}
	case "ite":
		a, b := t.Args[1], t.Args[2]
		if a.Lo != nil && b.Lo != nil {
			t.Lo = ratMin(a.Lo, b.Lo)
		}
		if a.Hi != nil && b.Hi != nil {
			t.Hi = ratMax(a.Hi, b.Hi)
		}
	case "to_real":
		t.Lo, t.Hi = t.Args[0].Lo, t.Args[0].Hi
	case "/":
		a, b := t.Args[0], t.Args[1]
		if a.Lo != nil && a.Lo.Sign() >= 0 && b.Lo != nil && b.Lo.Sign() > 0 {
			t.Lo = new(big.Rat)
			if a.Hi != nil {
				t.Hi = new(big.Rat).Quo(a.Hi, b.Lo)
			}
		}
	case "mod":
		b := t.Args[1]
		t.Lo = new(big.Rat)
		if b.Hi != nil && b.Lo != nil && b.Lo.Sign() > 0 {
			t.Hi = new(big.Rat).Sub(b.Hi, big.NewRat(1, 1))
		}
	}
}

// ---------- printing ----------

func fmtInt(v *big.Int) string {
	if v.Sign() < 0 {
		return "(- " + new(big.Int).Neg(v).String() + ")"
	}
	return v.String()
}

func fmtRat(r *big.Rat) string {
	if r.IsInt() {
		n := r.Num()
		if n.Sign() < 0 {
			return "(- " + new(big.Int).Neg(n).String() + ".0)"
		}
		return n.String() + ".0"
	}
	n, d := r.Num(), r.Denom()
	if n.Sign() < 0 {
		return "(- (/ " + new(big.Int).Neg(n).String() + ".0 " + d.String() + ".0))"
	}
	return "(/ " + n.String() + ".0 " + d.String() + ".0)"
}

// Vars returns the free variables of the given terms, sorted by name.
func FreeVars(ts ...*Term) []*Term {
	seen := map[*Term]bool{}
	var out []*Term
	var walk func(t *Term)
	walk = func(t *Term) {
		if seen[t] {
			return
		}
		seen[t] = true
		if t.Op == "v" {
			out = append(out, t)
		}
		for _, a := range t.Args {
			walk(a)
		}
	}
	for _, t := range ts {
		walk(t)
	}
	sort.Slice(out, func(i, j int) bool { return out[i].Name < out[j].Name })
	return out
}

// String gives a fully expanded SMT-LIB rendering (debugging, samples).
func (t *Term) String() string {
	switch t.Op {
	case "c":
		switch t.Sort {
		case SInt:
			return fmtInt(t.Int)
		case SReal:
			return fmtRat(t.Rat)
		}
		if t.B {
			return "true"
		}
		return "false"
	case "v":
		return t.Name
	}
	var sb strings.Builder
	sb.WriteByte('(')
	sb.WriteString(t.Op)
	for _, a := range t.Args {
		sb.WriteByte(' ')
		if sb.Len() > 4000 {
			sb.WriteString("…")
			break
		}
		sb.WriteString(a.String())
	}
	sb.WriteByte(')')
	return sb.String()
}

// Eval evaluates a term under a full assignment of its variables (used to
// double-check solver models before they are turned into witnesses).
func (c *Ctx) Eval(t *Term, env map[string]*big.Rat) (*big.Rat, bool, error) {
	memoR := map[*Term]*big.Rat{}
	memoB := map[*Term]bool{}
	var ev func(t *Term) error
	num := func(t *Term) *big.Rat { return memoR[t] }
	ev = func(t *Term) error {
		if t.Sort == SBool {
			if _, ok := memoB[t]; ok {
				return nil
			}
		} else if _, ok := memoR[t]; ok {
			return nil
		}
		for _, a := range t.Args {
			if err := ev(a); err != nil {
				return err
			}
		}
		switch t.Op {
		case "c":
			if t.Sort == SBool {
				memoB[t] = t.B
			} else {
				r, _ := t.ConstRat()
				memoR[t] = r
			}
		case "v":
			v, ok := env[t.Name]
			if !ok {
				return fmt.Errorf("eval: no value for %s", t.Name)
			}
			if t.Sort == SBool {
				memoB[t] = v.Sign() != 0
			} else {
				memoR[t] = v
			}
		case "+":
			memoR[t] = new(big.Rat).Add(num(t.Args[0]), num(t.Args[1]))
		case "-":
			memoR[t] = new(big.Rat).Sub(num(t.Args[0]), num(t.Args[1]))
		case "*":
			memoR[t] = new(big.Rat).Mul(num(t.Args[0]), num(t.Args[1]))
		case "/":
			if num(t.Args[1]).Sign() == 0 {
				return fmt.Errorf("eval: division by zero")
			}
			memoR[t] = new(big.Rat).Quo(num(t.Args[0]), num(t.Args[1]))
		case "to_real":
			memoR[t] = num(t.Args[0])
		case "to_int":
			memoR[t] = new(big.Rat).SetInt(FloorRat(num(t.Args[0])))
		case "tdiv", "div", "mod":
			a, b := num(t.Args[0]), num(t.Args[1])
			if !a.IsInt() || !b.IsInt() || b.Sign() == 0 {
				return fmt.Errorf("eval: bad integer division")
			}
			switch t.Op {
			case "tdiv":
				memoR[t] = new(big.Rat).SetInt(new(big.Int).Quo(a.Num(), b.Num()))
			case "div":
				q, _ := new(big.Int).DivMod(a.Num(), b.Num(), new(big.Int))
				memoR[t] = new(big.Rat).SetInt(q)
			case "mod":
				_, m := new(big.Int).DivMod(a.Num(), b.Num(), new(big.Int))
				memoR[t] = new(big.Rat).SetInt(m)
			}
		case "rhe":
			a := num(t.Args[0])
			if !a.IsInt() {
				return fmt.Errorf("eval: rhe of non-integer")
			}
			memoR[t] = new(big.Rat).SetInt(RHEBig(a.Num()))
		case "ite":
			if memoB[t.Args[0]] {
				memoR[t] = num(t.Args[1])
			} else {
				memoR[t] = num(t.Args[2])
			}
		case "<":
			memoB[t] = num(t.Args[0]).Cmp(num(t.Args[1])) < 0
		case "<=":
			memoB[t] = num(t.Args[0]).Cmp(num(t.Args[1])) <= 0
		case "=":
			if t.Args[0].Sort == SBool {
				memoB[t] = memoB[t.Args[0]] == memoB[t.Args[1]]
			} else {
				memoB[t] = num(t.Args[0]).Cmp(num(t.Args[1])) == 0
			}
		case "not":
			memoB[t] = !memoB[t.Args[0]]
		case "and":
			r := true
			for _, a := range t.Args {
				r = r && memoB[a]
			}
			memoB[t] = r
		case "or":
			r := false
			for _, a := range t.Args {
				r = r || memoB[a]
			}
			memoB[t] = r
		default:
			return fmt.Errorf("eval: unknown op %s", t.Op)
		}
		return nil
	}
	if err := ev(t); err != nil {
		return nil, false, err
	}
	if t.Sort == SBool {
		return nil, memoB[t], nil
	}
	return memoR[t], false, nil
}
