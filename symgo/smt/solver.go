package smt

import (
	"bufio"
	"fmt"
	"io"
	"math/big"
	"os"
	"os/exec"
	"strconv"
	"strings"
	"time"
)

// Prelude: exact-Z helper functions (DESIGN.md Appendix A).
const Prelude = `
(set-option :print-success false)
(declare-fun umul (Int Int) Int)
(declare-fun utdiv (Int Int) Int)
(declare-fun udiv (Int Int) Int)
(declare-fun umod (Int Int) Int)
(define-fun tdiv ((a Int) (b Int)) Int
  (ite (>= a 0) (ite (> b 0) (div a b) (- (div a (- b))))
                (ite (> b 0) (- (div (- a) b)) (div (- a) (- b)))))
(define-fun rhe ((x Int)) Int
  (let ((ax (ite (>= x 0) x (- x))))
  (let ((q (div ax 1000000000000000000)) (r (mod ax 1000000000000000000)))
  (let ((m (ite (< (* 2 r) 1000000000000000000) q
           (ite (> (* 2 r) 1000000000000000000) (+ q 1)
           (ite (= (mod q 2) 0) q (+ q 1))))))
  (ite (>= x 0) m (- m))))))
`

type Result int

const (
	Unsat Result = iota
	Sat
	Unknown
)

func (r Result) String() string {
	if r < 0 || int(r) > 2 {
		return "known-region"
	}
	return [...]string{"unsat", "sat", "unknown"}[r]
}

type Stats struct {
	Queries, Sat, Unsat, Unknown int
	Time                         time.Duration
}

// Solver is one persistent solver process driven over stdin/stdout.
type Solver struct {
	Cmd    []string
	proc   *exec.Cmd
	in     io.WriteCloser
	out    *bufio.Reader
	ctx    *Ctx
	level  int
	named  map[*Term]string // terms that have a define-fun / declare-const in the live scope
	byLvl  [][]*Term        // names introduced per level
	seq    int
	Stats  Stats
	Log    io.Writer // optional transcript
	Errors int
	Dead   bool // process was killed; caller must Restart and rebuild its scope
	// Abstract: print symbolic*symbolic products and divisions by a symbolic divisor as
	// uninterpreted functions (with sign/magnitude lemmas): a sound over-approximation
	// that keeps every query in UFLIA.
	Abstract bool
	ufApps   []ufApp
	// UFWindow: how many earlier applications of the same uninterpreted function get pairwise
	// monotonicity lemmas with a new one (0 = none; set per harness with nd.UFWindow)
	UFWindow int
	// CheckCmd replaces (check-sat); $T is the timeout in ms (used for ideal-Q: nlsat first)
	CheckCmd string
	// CheckCmdLong, when set, is used instead for timeouts >= 5 s (obligation queries): a sequential
	// portfolio; $A = 15% and $B = 10% of the timeout
	CheckCmdLong string
}

// ufWindow: how many earlier applications of the same uninterpreted function get pairwise
// monotonicity lemmas with a new one (SYMGO_UFWIN overrides).
var ufWindow = func() int {
	if v, err := strconv.Atoi(os.Getenv("SYMGO_UFWIN")); err == nil && v >= 0 {
		return v
	}
	return 24
}()

type ufApp struct {
	op, name, a, b string
	level          int
}

func NewSolver(ctx *Ctx, cmd []string) (*Solver, error) {
	s := &Solver{Cmd: cmd, ctx: ctx, named: map[*Term]string{}, byLvl: [][]*Term{nil}}
	if err := s.start(); err != nil {
		return nil, err
	}
	return s, nil
}

func (s *Solver) start() error {
	s.proc = exec.Command(s.Cmd[0], s.Cmd[1:]...)
	in, err := s.proc.StdinPipe()
	if err != nil {
		return err
	}
	out, err := s.proc.StdoutPipe()
	if err != nil {
		return err
	}
	s.proc.Stderr = os.Stderr
	if err := s.proc.Start(); err != nil {
		return err
	}
	s.in, s.out = in, bufio.NewReaderSize(out, 1<<20)
	if strings.Contains(s.Cmd[0], "cvc5") {
		s.send("(set-logic ALL)")
	}
	s.send(Prelude)
	return nil
}

func (s *Solver) Close() {
	if s.proc != nil {
		s.in.Close()
		s.proc.Process.Kill()
		s.proc.Wait()
		s.proc = nil
	}
}

// Restart kills the process and starts a fresh one at level 0 (used after a
// solver hang / error).
func (s *Solver) Restart() error {
	s.Close()
	s.level = 0
	s.Dead = false
	s.named = map[*Term]string{}
	s.byLvl = [][]*Term{nil}
	s.ufApps = nil
	return s.start()
}

func (s *Solver) send(txt string) {
	if s.Log != nil {
		io.WriteString(s.Log, txt)
		if !strings.HasSuffix(txt, "\n") {
			io.WriteString(s.Log, "\n")
		}
	}
	io.WriteString(s.in, txt)
	if !strings.HasSuffix(txt, "\n") {
		io.WriteString(s.in, "\n")
	}
}

func (s *Solver) Level() int { return s.level }

func (s *Solver) Push() {
	s.send("(push 1)")
	s.level++
	s.byLvl = append(s.byLvl, nil)
}

func (s *Solver) PopTo(level int) {
	if level >= s.level {
		return
	}
	n := s.level - level
	for l := s.level; l > level; l-- {
		for _, t := range s.byLvl[l] {
			delete(s.named, t)
		}
	}
	s.byLvl = s.byLvl[:level+1]
	k := len(s.ufApps)
	for k > 0 && s.ufApps[k-1].level > level {
		k--
	}
	s.ufApps = s.ufApps[:k]
	s.level = level
	s.send(fmt.Sprintf("(pop %d)", n))
}

// ref returns an SMT-LIB expression for t, emitting declarations /
// definitions for variables and large shared subterms as needed.
func (s *Solver) ref(t *Term) string {
	if n, ok := s.named[t]; ok {
		return n
	}
	switch t.Op {
	case "c":
		switch t.Sort {
		case SInt:
			return fmtInt(t.Int)
		case SReal:
			return fmtRat(t.Rat)
		}
		if t.B {
			return "true"
		}
		return "false"
	case "v":
		s.send(fmt.Sprintf("(declare-const %s %s)", t.Name, t.Sort))
		s.named[t] = t.Name
		s.byLvl[s.level] = append(s.byLvl[s.level], t)
		return t.Name
	}
	op := t.Op
	uf := false
	if s.Abstract && t.Sort == SInt {
		switch op {
		case "*":
			if !t.Args[0].IsConst() && !t.Args[1].IsConst() {
				op, uf = "umul", true
			}
		case "tdiv", "div", "mod":
			if !t.Args[1].IsConst() {
				op, uf = "u"+op, true
			}
		}
	}
	var sb strings.Builder
	sb.WriteByte('(')
	sb.WriteString(op)
	var refs []string
	for _, a := range t.Args {
		r := s.ref(a)
		refs = append(refs, r)
		sb.WriteByte(' ')
		sb.WriteString(r)
	}
	sb.WriteByte(')')
	expr := sb.String()
	if uf {
		name := fmt.Sprintf("t!%d", t.ID)
		s.send(fmt.Sprintf("(define-fun %s () %s %s)", name, t.Sort, expr))
		a, b := refs[0], refs[1]
		switch op {
		case "umul":
			s.send(fmt.Sprintf("(assert (and (=> (and (>= %s 0) (>= %s 0)) (>= %s 0)) (=> (= %s 0) (= %s 0)) (=> (= %s 0) (= %s 0)) (=> (and (>= %s 1) (>= %s 0)) (>= %s %s)) (=> (and (>= %s 1) (>= %s 0)) (>= %s %s)) (=> (= %s 1) (= %s %s)) (=> (= %s 1) (= %s %s))))",
				a, b, name, a, name, b, name, a, b, name, b, b, a, name, a, a, name, b, b, name, a))
			// multiplying by a fixed-point factor <= 1.0 (10^18) does not increase, >= 1.0 does not decrease
			s.send(fmt.Sprintf("(assert (=> (and (>= %s 0) (>= %s 0)) (and (=> (<= %s 1000000000000000000) (<= %s (* 1000000000000000000 %s))) (=> (>= %s 1000000000000000000) (>= %s (* 1000000000000000000 %s))) (=> (<= %s 1000000000000000000) (<= %s (* 1000000000000000000 %s))) (=> (>= %s 1000000000000000000) (>= %s (* 1000000000000000000 %s))))))",
				a, b, a, name, b, a, name, b, b, name, a, b, name, a))
		case "utdiv", "udiv":
			s.send(fmt.Sprintf("(assert (and (=> (and (>= %s 0) (> %s 0)) (and (>= %s 0) (<= %s %s))) (=> (and (>= %s 0) (> %s %s)) (= %s 0)) (=> (= %s 1) (= %s %s)) (=> (and (> %s 0) (= %s %s)) (= %s 1))))",
				a, b, name, name, a, a, b, a, name, b, name, a, a, a, b, name))
			// (c*x) / b compared with c: ratio x/b <= 1 or >= 1  (x, b >= 0)
			if x := t.Args[0]; x.Op == "*" && x.Args[0].IsConst() && x.Args[0].Int != nil && x.Args[0].Int.Sign() > 0 {
				cx, xr := s.ref(x.Args[0]), s.ref(x.Args[1])
				s.send(fmt.Sprintf("(assert (=> (and (>= %s 0) (> %s 0)) (and (=> (<= %s %s) (<= %s %s)) (=> (>= %s %s) (>= %s %s)))))",
					xr, b, xr, b, name, cx, xr, b, name, cx))
			}
			// (c*b) / b = c  for b != 0
			if x := t.Args[0]; x.Op == "*" && x.Args[0].IsConst() && x.Args[1] == t.Args[1] {
				s.send(fmt.Sprintf("(assert (=> (not (= %s 0)) (= %s %s)))", b, name, s.ref(x.Args[0])))
			}
		case "umod":
			s.send(fmt.Sprintf("(assert (=> (> %s 0) (and (>= %s 0) (< %s %s))))", b, name, name, b))
		}
		// pairwise monotonicity with earlier applications of the same function (bounded window)
		lo := len(s.ufApps) - s.UFWindow
		if lo < 0 {
			lo = 0
		}
		for _, u := range s.ufApps[lo:] {
			if u.op != op {
				continue
			}
			switch op {
			case "umul":
				s.send(fmt.Sprintf("(assert (and (=> (and (>= %s 0) (>= %s 0) (<= %s %s) (<= %s %s)) (<= %s %s)) (=> (and (>= %s 0) (>= %s 0) (<= %s %s) (<= %s %s)) (<= %s %s))))",
					u.a, u.b, u.a, a, u.b, b, u.name, name, a, b, a, u.a, b, u.b, name, u.name))
			case "utdiv", "udiv":
				s.send(fmt.Sprintf("(assert (and (=> (and (>= %s 0) (> %s 0) (> %s 0) (<= %s %s) (>= %s %s)) (<= %s %s)) (=> (and (>= %s 0) (> %s 0) (> %s 0) (<= %s %s) (>= %s %s)) (<= %s %s))))",
					u.a, u.b, b, u.a, a, u.b, b, u.name, name, a, b, u.b, a, u.a, b, u.b, name, u.name))
			}
		}
		s.ufApps = append(s.ufApps, ufApp{op, name, a, b, s.level})
		s.named[t] = name
		s.byLvl[s.level] = append(s.byLvl[s.level], t)
		return name
	}
	if t.size >= 6 {
		s.seq++
		name := fmt.Sprintf("t!%d", t.ID)
		s.send(fmt.Sprintf("(define-fun %s () %s %s)", name, t.Sort, expr))
		s.named[t] = name
		s.byLvl[s.level] = append(s.byLvl[s.level], t)
		return name
	}
	return expr
}

func (s *Solver) Assert(t *Term) {
	if v, ok := t.ConstBool(); ok && v {
		return
	}
	r := s.ref(t)
	s.send("(assert " + r + ")")
}

func (s *Solver) readLine() (string, error) {
	line, err := s.out.ReadString('\n')
	return strings.TrimSpace(line), err
}

// Check runs (check-sat) with the given timeout.
func (s *Solver) Check(timeout time.Duration) Result {
	start := time.Now()
	ms := int(timeout / time.Millisecond)
	if ms < 1 {
		ms = 1
	}
	s.send(fmt.Sprintf("(set-option :timeout %d)", ms))
	if s.CheckCmdLong != "" && ms >= 5000 {
		c := strings.ReplaceAll(s.CheckCmdLong, "$T", strconv.Itoa(ms))
		c = strings.ReplaceAll(c, "$A", strconv.Itoa(ms*15/100))
		c = strings.ReplaceAll(c, "$B", strconv.Itoa(ms/10))
		s.send(c)
	} else if s.CheckCmd != "" {
		s.send(strings.ReplaceAll(s.CheckCmd, "$T", strconv.Itoa(ms)))
	} else {
		s.send("(check-sat)")
	}
	res := Unknown
	done := make(chan struct{})
	var line string
	var err error
	go func() {
		for {
			line, err = s.readLine()
			if err != nil || line == "sat" || line == "unsat" || line == "unknown" || strings.HasPrefix(line, "(error") {
				break
			}
		}
		close(done)
	}()
	hard := timeout*3 + 5*time.Second
	select {
	case <-done:
		switch {
		case err != nil:
			s.Errors++
			s.hardReset()
		case line == "sat":
			res = Sat
		case line == "unsat":
			res = Unsat
		case strings.HasPrefix(line, "(error"):
			s.Errors++
			fmt.Fprintln(os.Stderr, "solver error:", line)
		}
	case <-time.After(hard):
		// solver ignored its soft timeout: kill it; the caller's scope is lost,
		// so signal by Errors and let the engine rebuild the scope.
		fmt.Fprintln(os.Stderr, "solver hard timeout; restarting")
		s.hardReset()
		<-done
	}
	s.Stats.Queries++
	switch res {
	case Sat:
		s.Stats.Sat++
	case Unsat:
		s.Stats.Unsat++
	default:
		s.Stats.Unknown++
	}
	s.Stats.Time += time.Since(start)
	return res
}

// NeedsRebuild is set when the process was restarted underneath the caller.
func (s *Solver) hardReset() {
	s.Dead = true
	s.Close()
}

// CheckWith = push; assert extra; check; pop.
func (s *Solver) CheckWith(timeout time.Duration, extra ...*Term) Result {
	s.Push()
	for _, e := range extra {
		s.Assert(e)
	}
	r := s.Check(timeout)
	if !s.Dead {
		s.PopTo(s.level - 1)
	}
	return r
}

// Model fetches values for the given variables after a sat answer.
func (s *Solver) Model(vars []*Term) (map[string]*big.Rat, error) {
	if len(vars) == 0 {
		return map[string]*big.Rat{}, nil
	}
	var sb strings.Builder
	sb.WriteString("(get-value (")
	for _, v := range vars {
		sb.WriteString(s.ref(v))
		sb.WriteByte(' ')
	}
	sb.WriteString("))")
	s.send(sb.String())
	// read balanced s-expression
	depth := 0
	var buf strings.Builder
	started := false
	for {
		line, err := s.out.ReadString('\n')
		if err != nil {
			return nil, err
		}
		buf.WriteString(line)
		for _, ch := range line {
			if ch == '(' {
				depth++
				started = true
			} else if ch == ')' {
				depth--
			}
		}
		if started && depth <= 0 {
			break
		}
	}
	txt := buf.String()
	if strings.Contains(txt, "(error") {
		return nil, fmt.Errorf("solver: %s", txt)
	}
	sx, _, err := parseSexp(txt, 0)
	if err != nil {
		return nil, err
	}
	out := map[string]*big.Rat{}
	for _, pair := range sx.list {
		if len(pair.list) != 2 {
			continue
		}
		name := pair.list[0].atom
		v, err := evalSexp(pair.list[1])
		if err != nil {
			return nil, fmt.Errorf("model value of %s: %v", name, err)
		}
		out[name] = v
	}
	return out, nil
}

// Values evaluates arbitrary terms under the current model.
func (s *Solver) Values(ts []*Term) ([]*big.Rat, error) {
	out := make([]*big.Rat, len(ts))
	var ask []string
	var idx []int
	for i, t := range ts {
		if r, ok := t.ConstRat(); ok {
			out[i] = r
			continue
		}
		if b, ok := t.ConstBool(); ok {
			out[i] = new(big.Rat)
			if b {
				out[i] = big.NewRat(1, 1)
			}
			continue
		}
		ask = append(ask, s.ref(t))
		idx = append(idx, i)
	}
	if len(ask) == 0 {
		return out, nil
	}
	s.send("(get-value (" + strings.Join(ask, " ") + "))")
	sx, err := s.readSexp()
	if err != nil {
		return nil, err
	}
	if len(sx.list) != len(ask) {
		return nil, fmt.Errorf("get-value: %d answers for %d terms", len(sx.list), len(ask))
	}
	for k, pair := range sx.list {
		if len(pair.list) != 2 {
			return nil, fmt.Errorf("get-value: malformed pair")
		}
		v, err := evalSexp(pair.list[1])
		if err != nil {
			return nil, err
		}
		out[idx[k]] = v
	}
	return out, nil
}

func (s *Solver) readSexp() (*sexp, error) {
	depth := 0
	var buf strings.Builder
	started := false
	for {
		line, err := s.out.ReadString('\n')
		if err != nil {
			return nil, err
		}
		buf.WriteString(line)
		for _, ch := range line {
			if ch == '(' {
				depth++
				started = true
			} else if ch == ')' {
				depth--
			}
		}
		if started && depth <= 0 {
			break
		}
	}
	txt := buf.String()
	if strings.Contains(txt, "(error") {
		return nil, fmt.Errorf("solver: %s", txt)
	}
	sx, _, err := parseSexp(txt, 0)
	return sx, err
}

type sexp struct {
	atom string
	list []*sexp
	isL  bool
}

func parseSexp(s string, i int) (*sexp, int, error) {
	for i < len(s) && (s[i] == ' ' || s[i] == '\n' || s[i] == '\t' || s[i] == '\r') {
		i++
	}
	if i >= len(s) {
		return nil, i, fmt.Errorf("sexp: eof")
	}
	if s[i] == '(' {
		i++
		n := &sexp{isL: true}
		for {
			for i < len(s) && (s[i] == ' ' || s[i] == '\n' || s[i] == '\t' || s[i] == '\r') {
				i++
			}
			if i >= len(s) {
				return nil, i, fmt.Errorf("sexp: eof in list")
			}
			if s[i] == ')' {
				return n, i + 1, nil
			}
			c, j, err := parseSexp(s, i)
			if err != nil {
				return nil, j, err
			}
			n.list = append(n.list, c)
			i = j
		}
	}
	j := i
	for j < len(s) && !strings.ContainsRune(" \n\t\r()", rune(s[j])) {
		j++
	}
	return &sexp{atom: s[i:j]}, j, nil
}

func evalSexp(x *sexp) (*big.Rat, error) {
	if !x.isL {
		switch x.atom {
		case "true":
			return big.NewRat(1, 1), nil
		case "false":
			return new(big.Rat), nil
		}
		a := strings.TrimSuffix(x.atom, "?")
		r, ok := new(big.Rat).SetString(a)
		if !ok {
			return nil, fmt.Errorf("bad number %q", x.atom)
		}
		return r, nil
	}
	if len(x.list) == 0 {
		return nil, fmt.Errorf("empty list")
	}
	op := x.list[0].atom
	var args []*big.Rat
	for _, a := range x.list[1:] {
		v, err := evalSexp(a)
		if err != nil {
			return nil, err
		}
		args = append(args, v)
	}
	switch op {
	case "-":
		if len(args) == 1 {
			return new(big.Rat).Neg(args[0]), nil
		}
		return new(big.Rat).Sub(args[0], args[1]), nil
	case "/":
		if args[1].Sign() == 0 {
			return nil, fmt.Errorf("division by zero in model")
		}
		return new(big.Rat).Quo(args[0], args[1]), nil
	case "+":
		return new(big.Rat).Add(args[0], args[1]), nil
	case "*":
		return new(big.Rat).Mul(args[0], args[1]), nil
	case "to_real":
		return args[0], nil
	case "root-obj":
		return nil, fmt.Errorf("algebraic (irrational) model value")
	}
	return nil, fmt.Errorf("unsupported model expression %q", op)
}
