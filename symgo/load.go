package main

import (
	"fmt"
	"os"
	"os/exec"
	"sort"
	"strings"
	"time"

	"golang.org/x/tools/go/packages"
	"golang.org/x/tools/go/ssa"
	"golang.org/x/tools/go/ssa/ssautil"

	"symgo/interp"
)

var harnessDir = "/verif/harness"

// altRepo: SYMGO_REPO=<dir> runs the checks against another checkout of the repository
// (used to try seeded changes in scratch worktrees without touching /repo): the harness
// module is copied to a scratch directory with its replace directive pointing there.
func altRepo() error {
	repo := os.Getenv("SYMGO_REPO")
	if repo == "" || repo == "/repo" {
		return nil
	}
	dst := fmt.Sprintf("/var/tmp/hv-%d", os.Getpid())
	if out, err := exec.Command("cp", "-r", "/verif/harness", dst).CombinedOutput(); err != nil {
		return fmt.Errorf("copying harness: %v %s", err, out)
	}
	gm, err := os.ReadFile(dst + "/go.mod")
	if err != nil {
		return err
	}
	if err := os.WriteFile(dst+"/go.mod", []byte(strings.Replace(string(gm), "=> /repo", "=> "+repo, 1)), 0o644); err != nil {
		return err
	}
	harnessDir = dst
	return nil
}

// packages whose initialisers are executed on every path (order matters)
var initPaths = []string{
	"github.com/terra-money/alliance/x/alliance/types",
	"github.com/terra-money/alliance/x/alliance/keeper",
	"github.com/terra-money/alliance/x/alliance",
	"hv/nd",
	"hv/env",
	"hv/h",
}

// package path prefixes interpreted from source (everything else needs a stub)
var allow = []string{
	"hv",
	"github.com/terra-money/alliance",
	"github.com/cosmos/cosmos-sdk/types!",
	"github.com/cosmos/cosmos-sdk/types/address",
	"github.com/cosmos/cosmos-sdk/types/query",
	"github.com/cosmos/cosmos-sdk/types/kv",
	"github.com/cosmos/cosmos-sdk/runtime!",
	"github.com/cosmos/cosmos-sdk/x/staking/types!",
	"cosmossdk.io/store/types!",
	"cosmossdk.io/store/prefix!",
	"sort", "strings", "bytes", "math/bits", "slices", "golang.org/x/exp/slices", "cmp",
	"unicode/utf8", "unicode", "errors", "encoding/binary", "strconv", "context", "math",
	"golang.org/x/exp/constraints", "golang.org/x/exp/maps", "maps", "internal/bytealg", "internal/stringslite", "iter",
}

type Loaded struct {
	Prog  *ssa.Program
	P     *interp.Program
	HPkg  *ssa.Package
	LoadS float64
	NPkgs int
}

func load() (*Loaded, error) {
	start := time.Now()
	cfg := &packages.Config{
		Mode: packages.LoadAllSyntax,
		Dir:  harnessDir,
		Env:  append(os.Environ(), "GOFLAGS=-mod=mod", "GOPROXY=off", "GOSUMDB=off", "GOTOOLCHAIN=local"),
	}
	pkgs, err := packages.Load(cfg, "hv/h")
	if err != nil {
		return nil, err
	}
	n := 0
	bad := false
	packages.Visit(pkgs, nil, func(p *packages.Package) {
		n++
		for _, e := range p.Errors {
			fmt.Fprintln(os.Stderr, "load error:", e)
			bad = true
		}
	})
	if bad {
		return nil, fmt.Errorf("package load errors (does /repo build?)")
	}
	prog, _ := ssautil.AllPackages(pkgs, ssa.InstantiateGenerics)
	prog.Build()
	hp := prog.ImportedPackage("hv/h")
	ndp := prog.ImportedPackage("hv/nd")
	if hp == nil || ndp == nil {
		return nil, fmt.Errorf("harness packages not found")
	}
	P := &interp.Program{Prog: prog, InitPaths: initPaths, Allow: allow, HarnessPkg: ndp}
	return &Loaded{Prog: prog, P: P, HPkg: hp, LoadS: time.Since(start).Seconds(), NPkgs: n}, nil
}

// harnesses returns the harness functions of a property (H_<prop>_...), sorted.
func (l *Loaded) harnesses(prop string) []*ssa.Function {
	var out []*ssa.Function
	for name, m := range l.HPkg.Members {
		if fn, ok := m.(*ssa.Function); ok && strings.HasPrefix(name, "H_"+prop+"_") {
			out = append(out, fn)
		}
	}
	sort.Slice(out, func(i, j int) bool { return out[i].Name() < out[j].Name() })
	return out
}
