package main

import (
	"encoding/json"
	"fmt"
	"os"
	"path/filepath"
	"sort"
	"strings"
	"time"

	"symgo/interp"
)

type oblEvidence struct {
	ID             string `json:"id"`
	Harness        string `json:"harness"`
	Arith          string `json:"arith"`
	Paths          int    `json:"paths_reaching"`
	Unsat          int    `json:"unsat"`
	Trivial        int    `json:"concrete_true"`
	Sat            int    `json:"sat"`
	KnownSat       int    `json:"sat_in_known_finding_region"`
	KnownUndecided int    `json:"undecided_in_known_finding_region"`
	Unknown        int    `json:"unknown"`
	SolverMS       int64  `json:"solver_ms"`
	Status         string `json:"status"` // discharged | known-finding | violated | unreproduced | inconclusive | unreached
	ReachOK        bool   `json:"reach_witness"`
	ReachNote      string `json:"reach_replay,omitempty"`
}

func report(prop, tier string, seed int, l *Loaded, results []*taskResult, known []interp.KnownRegion,
	replayBin string, replayErr error, noReplay bool, start time.Time) int {

	exit := 0
	var obls []oblEvidence
	var inconclusive []string
	var samples []interface{}
	funcs := map[string]int64{}
	stubsHit := map[string]int{}
	states, transitions, traces := 0, 0, 0
	solverQ, solverSat, solverUnsat, solverUnk := 0, 0, 0, 0
	solverTime := 0.0
	violations := 0
	unreproduced := 0
	knownPrinted := map[string]bool{}
	nondet := map[string]int{}
	cross := map[string]int{}
	var notes []string

	if replayErr != nil {
		inconclusive = append(inconclusive, "native replay binary could not be built: "+firstLine(replayErr.Error()))
		fmt.Println(replayErr)
	}

	type reachCand struct {
		task string
		w    *interp.Witness
	}
	reachCands := map[string][]reachCand{}
	reachNote := map[string]string{}
	for _, tr := range results {
		if tr == nil || tr.Err != "" {
			continue
		}
		for _, id := range sortedKeys(tr.Eng.ReachWit) {
			reachCands[id] = append(reachCands[id], reachCand{tr.Harness, tr.Eng.ReachWit[id]})
		}
	}
	// vacuity guard: for every obligation id at least one witness must reach it natively;
	// observables are compared for witnesses that are models of the exact encoding
	reachedIDs := map[string]bool{}
	for _, tr := range results {
		if tr == nil || tr.Err != "" {
			continue
		}
		for id, n := range tr.Eng.Reached {
			if n > 0 {
				reachedIDs[id] = true
			}
		}
	}
	for _, id := range sortedKeys(reachedIDs) {
		cands := reachCands[id]
		// exact models first
		sort.SliceStable(cands, func(i, j int) bool {
			return !strings.Contains(cands[i].w.Note, "abstraction") && strings.Contains(cands[j].w.Note, "abstraction")
		})
		ok := false
		tried := 0
		var lastProblem string
		for _, c := range cands {
			if tried >= 6 {
				break
			}
			p := writeWitness(c.w, c.task+"."+id+".reach")
			if noReplay || replayBin == "" {
				ok = true
				reachNote[id] = "not replayed (-noreplay)"
				break
			}
			if c.w.Mode == "ideal-Q" {
				ok = true
				reachNote[id] = "ideal-Q reach witness (rational model) not replayed"
				break
			}
			tried++
			r, txt, err := runReplay(replayBin, p)
			if err != nil {
				lastProblem = "replay failed: " + firstLine(txt)
				continue
			}
			got := false
			for _, x := range r.Reached {
				if x == id {
					got = true
				}
			}
			exact := !strings.Contains(c.w.Note, "abstraction")
			if !got || len(r.BadAssume) > 0 {
				lastProblem = fmt.Sprintf("witness %s did not reach the obligation natively (exact model: %v, bad_assume=%v, panic=%q)", p, exact, r.BadAssume, r.Panic)
				if exact {
					inconclusive = append(inconclusive, fmt.Sprintf("%s: exact reach witness of %s diverges natively: %s", c.task, id, lastProblem))
				}
				continue
			}
			if exact {
				mism := ""
				for k, v := range c.w.Expect {
					if nv, ok := r.Observed[k]; ok && nv != v {
						mism += fmt.Sprintf(" %s: symbolic %s native %s;", k, v, nv)
					}
				}
				if mism != "" {
					inconclusive = append(inconclusive, fmt.Sprintf("%s: reach witness of %s: observable mismatch:%s (witness %s)", c.task, id, mism, p))
					lastProblem = "observable mismatch"
					continue
				}
				reachNote[id] = "exact model replayed natively, observables match"
			} else {
				reachNote[id] = "model of the abstraction reached the obligation natively"
			}
			traces++
			ok = true
			break
		}
		if !ok {
			if len(cands) == 0 {
				lastProblem = "no satisfiable path condition found"
			}
			inconclusive = append(inconclusive, fmt.Sprintf("no natively validated path reaches %s (vacuity guard): %s", id, lastProblem))
		}
	}
	for _, tr := range results {
		if tr == nil {
			continue
		}
		if tr.Err != "" {
			inconclusive = append(inconclusive, tr.Harness+": "+tr.Err)
			continue
		}
		e := tr.Eng
		states += e.Paths
		transitions += e.Branches
		st := e.S.Stats
		solverQ += st.Queries
		solverSat += st.Sat
		solverUnsat += st.Unsat
		solverUnk += st.Unknown
		solverTime += st.Time.Seconds()
		for k, v := range e.Funcs {
			funcs[k] += v
		}
		for k, v := range e.StubsHit {
			stubsHit[k] += v
		}
		for k, v := range e.NondetSites {
			nondet[k] += v
		}
		for k, v := range e.Cross {
			cross[k] += v
		}
		notes = append(notes, e.Notes...)
		for _, inc := range e.Incomplete {
			inconclusive = append(inconclusive, tr.Harness+": "+inc)
		}
		for _, s := range e.Samples {
			if len(samples) < 24 {
				samples = append(samples, map[string]interface{}{"harness": tr.Harness, "decisions": s.Decisions, "pc_conjuncts": s.PCSize, "end": s.End, "ssa_steps": s.Steps})
			}
		}
		for _, id := range e.SortedObligations() {
			o := e.Obl[id]
			ev := oblEvidence{ID: id, Harness: tr.Harness, Arith: o.Arith, Paths: o.Paths, Unsat: o.Unsat, Trivial: o.Trivial,
				Sat: o.Sat, KnownSat: o.KnownSat, KnownUndecided: o.KnownUndecided, Unknown: o.Unknown, SolverMS: o.SolverMS}
			base := strings.TrimSuffix(id, ".nopanic")
			_, ev.ReachOK = e.ReachWit[base]
			ev.ReachNote = reachNote[base]
			ev.Status = "discharged"
			if o.KnownSat > 0 || o.KnownUndecided > 0 {
				ev.Status = "known-finding"
			}
			if o.Unknown > 0 {
				ev.Status = "inconclusive"
				inconclusive = append(inconclusive, fmt.Sprintf("%s: obligation %s: solver answered unknown on %d path(s)", tr.Harness, id, o.Unknown))
			}
			if o.Sat > 0 {
				confirmed := false
				knownNative := false
				sort.SliceStable(o.Witnesses, func(i, j int) bool {
					return !strings.Contains(o.Witnesses[i].Note, "abstraction") && strings.Contains(o.Witnesses[j].Note, "abstraction")
				})
				for wi, w := range o.Witnesses {
					p := writeWitness(w, fmt.Sprintf("%s.%s.cex%d", tr.Harness, id, wi))
					if noReplay || replayBin == "" {
						fmt.Printf("COUNTEREXAMPLE (not replayed) obligation=%s witness=%s\n", id, p)
						continue
					}
					r, txt, err := runReplay(replayBin, p)
					if err != nil {
						fmt.Printf("replay error for %s: %v\n%s\n", p, err, lastLines(txt, 15))
						continue
					}
					failed := false
					for _, f := range r.Failed {
						if f == id {
							failed = true
						}
					}
					if failed && len(r.BadAssume) == 0 {
						// the native run is the ground truth for region membership: a failure
						// inside a listed region is the known finding, not a new violation
						if kr := matchKnownTags(known, id, r.Tags); kr != nil {
							line := fmt.Sprintf("KNOWN-FINDING: property=%s %s [replayed natively: %s]", prop, kr.What, p)
							if !knownPrinted[kr.What] {
								knownPrinted[kr.What] = true
								fmt.Println(line)
							}
							knownNative = true
							continue
						}
						confirmed = true
						violations++
						fmt.Printf("VIOLATION property=%s replay=%s\n", prop, p)
						fmt.Printf("  obligation=%s harness=%s note=%q native=%v\n", id, tr.Harness, w.Note, r.Failed)
						exit = 1
						break
					}
					fmt.Printf("UNREPRODUCED obligation=%s witness=%s native_failed=%v bad_assume=%v panic=%q\n", id, p, r.Failed, r.BadAssume, r.Panic)
				}
				if confirmed {
					ev.Status = "violated"
				} else if knownNative {
					ev.Status = "known-finding"
				} else {
					ev.Status = "unreproduced"
					unreproduced++
					inconclusive = append(inconclusive, fmt.Sprintf("%s: obligation %s: solver counterexample did not reproduce natively (encoding or stub imprecise)", tr.Harness, id))
				}
			}
			obls = append(obls, ev)
		}
		// known findings: replay their witness natively too (must still fail, otherwise the listing is stale)
		for _, what := range sortedKeys(e.KnownHits) {
			line := ""
			for _, k := range known {
				if k.What == what {
					line = fmt.Sprintf("KNOWN-FINDING: property=%s %s", prop, k.What)
				}
			}
			if w := e.KnownWit[what]; w != nil && !noReplay && replayBin != "" && w.Mode != "ideal-Q" {
				p := writeWitness(w, tr.Harness+"."+w.Obligation+".known")
				r, _, err := runReplay(replayBin, p)
				if err == nil {
					failed := false
					for _, f := range r.Failed {
						if f == w.Obligation {
							failed = true
						}
					}
					if failed {
						line += " [replayed natively: " + p + "]"
					} else {
						line += " [this run's witness (model of the abstraction) did not reproduce natively: " + p + "]"
						if !strings.Contains(w.Note, "abstraction") {
							inconclusive = append(inconclusive, "known finding '"+what+"': exact witness did not reproduce natively")
						}
					}
				}
			}
			if !knownPrinted[what] {
				knownPrinted[what] = true
				fmt.Println(line)
			}
		}
	}

	// every listed finding of the property gets its line, also when this run (e.g. a run restricted
	// with -only, or a tier that does not build the state) found no witness inside its region
	for _, k := range known {
		if !knownPrinted[k.What] {
			knownPrinted[k.What] = true
			fmt.Printf("KNOWN-FINDING: property=%s %s [listed; no witness inside its region in this run]\n", prop, k.What)
		}
	}

	if censusC19 != nil {
		// every nondeterminism site of the state-machine packages must have been executed by
		// a self-composition harness (under independent symbolic resolutions)
		for site := range censusC19 {
			key := strings.TrimPrefix(site, "call of ")
			hit := false
			for k := range nondet {
				if strings.Contains(site, k) || strings.Contains(k, key) || k == site {
					hit = true
				}
			}
			if !hit {
				inconclusive = append(inconclusive, "nondeterminism site not executed by any self-composition harness: "+site)
			}
		}
	}
	sort.Strings(inconclusive)
	inconclusive = dedup(inconclusive)
	for _, s := range inconclusive {
		fmt.Println("INCONCLUSIVE", s)
	}
	discharged := 0
	for _, o := range obls {
		if o.Status == "discharged" || o.Status == "known-finding" {
			discharged++
		}
	}
	fmt.Printf("property %s tier %s: obligations=%d discharged=%d violations=%d unreproduced=%d inconclusive_items=%d paths=%d branches=%d solver: q=%d sat=%d unsat=%d unknown=%d %.1fs; wall %.1fs\n",
		prop, tier, len(obls), discharged, violations, unreproduced, len(inconclusive), states, transitions, solverQ, solverSat, solverUnsat, solverUnk, solverTime, time.Since(start).Seconds())

	// functions encoded: repository functions only, by instruction count
	repoFuncs := map[string]int64{}
	for k, v := range funcs {
		if strings.Contains(k, "terra-money/alliance") {
			repoFuncs[k] = v
		}
	}
	if len(samples) == 0 {
		samples = append(samples, "no path completed")
	}
	if states == 0 {
		states = 1
	}
	if transitions == 0 {
		transitions = 1
	}
	var knownList []string
	for k := range knownPrinted {
		knownList = append(knownList, k)
	}
	sort.Strings(knownList)
	ev := map[string]interface{}{
		"property_id": prop,
		"tier":        tier,
		"seed":        seed,
		"level":       "model_checking",
		"wall_s":      time.Since(start).Seconds(),
		"violations":  violations,
		"coverage": map[string]interface{}{
			"states":                        states,
			"transitions":                   transitions,
			"traces_validated_against_impl": traces,
			"samples":                       samples,
			"obligations":                   len(obls),
			"discharged":                    discharged,
			"explanation":                   "states = feasible paths of the real code explored to the end by the symbolic executor; transitions = symbolic branch decisions; every obligation instance is one SMT query PC∧¬assert decided for all values of the symbolic inputs within the stated ranges",
			"obligation_results":            obls,
			"inconclusive":                  inconclusive,
			"unreproduced":                  unreproduced,
			"known_findings":                knownList,
			"functions_encoded":             repoFuncs,
			"functions_encoded_total":       len(funcs),
			"stubs_hit":                     stubsHit,
			"nondeterminism_sites":          nondet,
			"nondeterminism_census":         censusC19,
			"solver": map[string]interface{}{
				"cmd": strings.Join(solverCmd, " "), "queries": solverQ, "sat": solverSat, "unsat": solverUnsat, "unknown": solverUnk, "time_s": solverTime,
			},
			"cross_solver": cross,
			"bounds":       boundsFor(tier),
			"load_s":       l.LoadS,
			"notes":        notes,
		},
		"assumptions": assumptions,
	}
	evDir := filepath.Join(verifDir, "evidence")
	if r := os.Getenv("SYMGO_REPO"); r != "" && r != "/repo" {
		// a run against another checkout (seeded change in a scratch worktree) must not overwrite
		// the evidence of /repo
		evDir = filepath.Join(verifDir, "out", "evidence-altrepo")
	}
	os.MkdirAll(evDir, 0o755)
	b, _ := json.MarshalIndent(ev, "", " ")
	if err := os.WriteFile(filepath.Join(evDir, prop+".json"), b, 0o644); err != nil {
		fmt.Fprintln(os.Stderr, "writing evidence:", err)
		return 2
	}
	return exit
}

var assumptions = []string{
	"A-time: sdk.FormatTimeBytes is fixed-width and order-preserving for years 1..9999; block times lie in 2020..2100",
	"A-store: the KV store behaves as an ordered map with end-exclusive ranges and snapshot iterators (plain-Go model /verif/harness/env/store.go, used symbolically and natively)",
	"A-codec: gogoproto round-trips every module message (empty slices become nil, nil Int/Dec become zero)",
	"A-bank / A-staking / A-distr: the environment keepers are the plain-Go models in /verif/harness/env (transcribed from cosmos-sdk v0.50.4 for Delegate/Unbond/ValidateUnbondAmount incl. the hook protocol)",
	"cosmossdk.io/math is summarised (DESIGN.md Appendix A); LegacyDec/Int overflow panics (bit length > 315/256) are outside the claim unless an obligation enables them",
	"addresses and denoms are the concrete members of the universe in /verif/harness/h/universe.go",
}

func boundsFor(tier string) map[string]interface{} {
	tc := tiers[tier]
	return map[string]interface{}{
		"universe":           "2 delegators, 3 validators, 2 alliance denoms (+ bond denom), records per harness as stated in the harness source",
		"magnitudes":         "token amounts 1..10^30 unless a harness states a smaller range; shares up to 10^48; rates/fractions in their documented ranges",
		"power_unroll":       tc.MaxPower,
		"max_paths_per_task": tc.MaxPaths,
		"max_ssa_steps":      tc.MaxSteps,
		"branch_timeout_ms":  tc.BranchTO.Milliseconds(),
		"assert_timeout_ms":  tc.AssertTO.Milliseconds(),
		"outside":            "anything needing a larger universe, deeper histories than the harness unrolls, overflow of the fixed-point library, real x/bank, x/staking, x/distribution internals",
	}
}

func dedup(xs []string) []string {
	var out []string
	for i, x := range xs {
		if i == 0 || x != xs[i-1] {
			out = append(out, x)
		}
	}
	return out
}

func firstLine(s string) string {
	if k := strings.IndexByte(s, '\n'); k >= 0 {
		return s[:k]
	}
	return s
}

func lastLines(s string, n int) string {
	ls := strings.Split(strings.TrimSpace(s), "\n")
	if len(ls) > n {
		ls = ls[len(ls)-n:]
	}
	return strings.Join(ls, "\n")
}

func matchKnownTags(known []interp.KnownRegion, id string, tags []string) *interp.KnownRegion {
	for i := range known {
		k := &known[i]
		if k.Obligation != id {
			continue
		}
		ok := true
		for _, t := range k.Tags {
			found := false
			for _, x := range tags {
				if x == t {
					found = true
				}
			}
			ok = ok && found
		}
		if ok {
			return k
		}
	}
	return nil
}
