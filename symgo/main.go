// symgo: bounded symbolic execution of the real x/alliance code (from go/ssa) with
// an SMT solver deciding every assertion. See /verif/DESIGN.md.
package main

import (
	"encoding/json"
	"flag"
	"fmt"
	"os"
	"os/exec"
	"path/filepath"
	"regexp"
	"sort"
	"strconv"
	"strings"
	"sync"
	"time"

	"go/types"

	"golang.org/x/tools/go/ssa"

	"symgo/interp"
)

const (
	verifDir = "/verif"
	outDir   = "/verif/out"
)

var solverCmd = []string{"z3-new", "-in"}

type tierCfg struct {
	MaxPaths int
	MaxSteps int64
	BranchTO time.Duration
	AssertTO time.Duration
	ExactTO  time.Duration
	MaxPower int
	TaskTime time.Duration
	Total    time.Duration // budget of one check; tasks still running are cut (reported as reduced bound)
}

var tiers = map[string]tierCfg{
	"quick":    {MaxPaths: 4000, MaxSteps: 3_000_000, BranchTO: 600 * time.Millisecond, AssertTO: 10 * time.Second, ExactTO: 3 * time.Second, MaxPower: 8, TaskTime: 8 * time.Minute, Total: 25 * time.Minute},
	"thorough": {MaxPaths: 60000, MaxSteps: 10_000_000, BranchTO: 2 * time.Second, AssertTO: 60 * time.Second, ExactTO: 20 * time.Second, MaxPower: 64, TaskTime: 15 * time.Minute, Total: 20 * time.Minute},
}

type taskResult struct {
	Harness string
	Fn      string
	Eng     *interp.Engine
	Wall    time.Duration
	Err     string
}

func main() {
	if len(os.Args) < 2 {
		fmt.Fprintln(os.Stderr, "usage: symgo check|replay|list ...")
		os.Exit(2)
	}
	switch os.Args[1] {
	case "check":
		os.Exit(cmdCheck(os.Args[2:]))
	case "replay":
		os.Exit(cmdReplay(os.Args[2:]))
	case "list":
		l, err := load()
		if err != nil {
			fmt.Fprintln(os.Stderr, err)
			os.Exit(2)
		}
		for name := range l.HPkg.Members {
			if strings.HasPrefix(name, "H_") {
				fmt.Println(name)
			}
		}
	default:
		fmt.Fprintln(os.Stderr, "unknown command", os.Args[1])
		os.Exit(2)
	}
}

func isIdeal(name string) bool { return strings.HasSuffix(name, "_Q") }

func cmdCheck(args []string) int {
	fs := flag.NewFlagSet("check", flag.ExitOnError)
	prop := fs.String("prop", "", "property id (C01..C20)")
	tier := fs.String("tier", "", "quick|thorough (default: $VERIF_TIER or quick)")
	workers := fs.Int("workers", 14, "parallel harness tasks")
	only := fs.String("only", "", "run only harnesses whose name contains this")
	verbose := fs.Bool("v", false, "print every path")
	noReplay := fs.Bool("noreplay", false, "skip native replay (debugging only; never registered)")
	fs.Parse(args)
	if *tier == "" {
		*tier = os.Getenv("VERIF_TIER")
	}
	if *tier == "" {
		*tier = "quick"
	}
	tc, ok := tiers[*tier]
	if !ok {
		fmt.Fprintln(os.Stderr, "bad tier", *tier)
		return 2
	}
	seed, _ := strconv.Atoi(os.Getenv("VERIF_SEED"))
	start := time.Now()

	if err := altRepo(); err != nil {
		fmt.Fprintln(os.Stderr, err)
		return 2
	}
	if harnessDir != "/verif/harness" {
		defer os.RemoveAll(harnessDir)
	}
	if err := genRegistry(); err != nil {
		fmt.Fprintln(os.Stderr, "registry generation failed:", err)
		return 2
	}
	l, err := load()
	if err != nil {
		fmt.Fprintln(os.Stderr, "load failed:", err)
		return 2
	}
	fmt.Printf("loaded %d packages, SSA built in %.1fs\n", l.NPkgs, l.LoadS)
	hs := l.harnesses(*prop)
	if *only != "" {
		var f []*ssa.Function
		for _, h := range hs {
			if strings.Contains(h.Name(), *only) {
				f = append(f, h)
			}
		}
		hs = f
	}
	if len(hs) == 0 {
		fmt.Fprintln(os.Stderr, "no harness for property", *prop)
		return 2
	}
	known := loadKnown(*prop)

	// native replay binary is built concurrently with exploration
	var replayBin string
	var replayErr error
	var rwg sync.WaitGroup
	if !*noReplay {
		rwg.Add(1)
		go func() {
			defer rwg.Done()
			replayBin, replayErr = buildReplayBinary()
		}()
	}

	// split every harness into independent tasks along its leading nd.Choice calls
	type task struct {
		h      *ssa.Function
		forced []int
	}
	var tasks []task
	var tmu sync.Mutex
	var pwg sync.WaitGroup
	for _, h := range hs {
		pwg.Add(1)
		go func(h *ssa.Function) {
			defer pwg.Done()
			lim := interp.Limits{MaxPaths: 1, MaxSteps: tc.MaxSteps, BranchTO: tc.BranchTO, AssertTO: tc.BranchTO, MaxPower: tc.MaxPower, TaskDeadline: time.Now().Add(time.Minute)}
			eng, err := interp.NewEngine(h.Name(), isIdeal(h.Name()), solverCmd, lim)
			var ar []int
			if err == nil {
				eng.Thorough = *tier == "thorough"
				eng.Probe = true
				eng.SymMapOrder = strings.HasPrefix(h.Name(), "H_C19_")
				eng.S.Abstract = !isIdeal(h.Name()) && !strings.HasSuffix(h.Name(), "_X")
				ar = l.P.LeadingChoices(eng, h)
				eng.Close()
			}
			// use leading choices while the number of tasks stays <= 48
			n := 1
			var use []int
			for _, a := range ar {
				if n*a > 48 {
					break
				}
				n *= a
				use = append(use, a)
			}
			var combos [][]int
			var rec func(prefix []int)
			rec = func(prefix []int) {
				if len(prefix) == len(use) {
					combos = append(combos, append([]int(nil), prefix...))
					return
				}
				for k := 0; k < use[len(prefix)]; k++ {
					rec(append(prefix, k))
				}
			}
			rec(nil)
			tmu.Lock()
			for _, c := range combos {
				tasks = append(tasks, task{h, c})
			}
			tmu.Unlock()
		}(h)
	}
	pwg.Wait()
	sort.Slice(tasks, func(i, j int) bool {
		if tasks[i].h.Name() != tasks[j].h.Name() {
			return tasks[i].h.Name() < tasks[j].h.Name()
		}
		return fmt.Sprint(tasks[i].forced) < fmt.Sprint(tasks[j].forced)
	})
	fmt.Printf("%d harness(es) split into %d task(s)\n", len(hs), len(tasks))

	results := make([]*taskResult, len(tasks))
	sem := make(chan struct{}, *workers)
	var wg sync.WaitGroup
	for idx, tk := range tasks {
		wg.Add(1)
		go func(idx int, h *ssa.Function, forced []int) {
			defer wg.Done()
			sem <- struct{}{}
			defer func() { <-sem }()
			t0 := time.Now()
			name := h.Name()
			for k, f := range forced {
				if k == 0 {
					name += "#"
				} else {
					name += "."
				}
				name += strconv.Itoa(f)
			}
			tr := &taskResult{Harness: name, Fn: h.Name()}
			results[idx] = tr
			lim := interp.Limits{MaxPaths: tc.MaxPaths, MaxSteps: tc.MaxSteps, BranchTO: tc.BranchTO, AssertTO: tc.AssertTO, ExactTO: tc.ExactTO,
				MaxPower: tc.MaxPower, TaskDeadline: time.Now().Add(tc.TaskTime)}
			if g := start.Add(tc.Total); lim.TaskDeadline.After(g) {
				lim.TaskDeadline = g
			}
			eng, err := interp.NewEngine(h.Name(), isIdeal(h.Name()), solverCmd, lim)
			if err != nil {
				tr.Err = err.Error()
				return
			}
			defer eng.Close()
			eng.Thorough = *tier == "thorough"
			eng.Forced = forced
			eng.SymMapOrder = strings.HasPrefix(h.Name(), "H_C19_")
			eng.S.Abstract = !isIdeal(h.Name()) && !strings.HasSuffix(h.Name(), "_X")
			if isIdeal(h.Name()) && !eng.Thorough {
				eng.Lim.AssertTO = 24 * time.Second // the portfolio's last stage needs ~15 s on the hardest C12 step queries
			}
			if isIdeal(h.Name()) {
				// ideal-Q queries are nonlinear real arithmetic: z3's nlsat tactic decides them in
				// milliseconds where the incremental core answers unknown (measured on C12.step.claim: 0.3 s vs 47 s + unknowns)
				eng.S.CheckCmd = "(check-sat-using (or-else (try-for qfnra-nlsat $T) smt))"
				// obligation queries: sequential portfolio (equation solving first - measured on the C12 step
				// obligations: 1 s where plain nlsat times out at 60 s)
				eng.S.CheckCmdLong = "(check-sat-using (or-else (try-for (then simplify solve-eqs qfnra-nlsat) $A) (try-for (then simplify solve-eqs smt) $B) (try-for (then simplify propagate-values solve-eqs elim-uncnstr qfnra) $T) smt))"
				if c := os.Getenv("SYMGO_IDEAL_CHECK"); c != "" {
					eng.S.CheckCmd = c
				}
			}
			eng.SetKnown(known)
			tr.Eng = eng
			var progress func(string)
			if *verbose {
				progress = func(s string) { fmt.Printf("  [%s] %s\n", name, s) }
			}
			l.P.Explore(eng, h, progress)
			tr.Wall = time.Since(t0)
			fmt.Printf("task %-44s paths=%d branches=%d %.1fs solver=%.1fs(q=%d) exact(q=%d)\n", name, eng.Paths, eng.Branches, tr.Wall.Seconds(), eng.S.Stats.Time.Seconds(), eng.S.Stats.Queries, eng.XStats.Queries)
		}(idx, tk.h, tk.forced)
	}
	wg.Wait()
	rwg.Wait()
	if *prop == "C19" {
		censusC19 = census(l)
	}
	return report(*prop, *tier, seed, l, results, known, replayBin, replayErr, *noReplay, start)
}

func loadKnown(prop string) []interp.KnownRegion {
	b, err := os.ReadFile(filepath.Join(verifDir, "known_findings.json"))
	if err != nil {
		return nil
	}
	var f struct {
		Findings []interp.KnownRegion `json:"findings"`
	}
	if err := json.Unmarshal(b, &f); err != nil {
		fmt.Fprintln(os.Stderr, "known_findings.json:", err)
		os.Exit(2)
	}
	var out []interp.KnownRegion
	for _, k := range f.Findings {
		if k.Property == prop {
			out = append(out, k)
		}
	}
	return out
}

// genRegistry regenerates the harness registry used by the native replay test from the
// harness sources (textually, so that it can run before the packages are type-checked).
func genRegistry() error {
	files, err := filepath.Glob(filepath.Join(harnessDir, "h", "*.go"))
	if err != nil {
		return err
	}
	re := regexp.MustCompile(`(?m)^func (H_[A-Za-z0-9_]+)\(\)`)
	var names []string
	for _, f := range files {
		if strings.HasSuffix(f, "zz_registry.go") || strings.HasSuffix(f, "_test.go") {
			continue
		}
		b, err := os.ReadFile(f)
		if err != nil {
			return err
		}
		for _, m := range re.FindAllStringSubmatch(string(b), -1) {
			names = append(names, m[1])
		}
	}
	sort.Strings(names)
	var sb strings.Builder
	sb.WriteString("// Code generated by symgo (list of harness entry points); DO NOT EDIT.\npackage h\n\nvar Registry = map[string]func(){\n")
	for _, n := range names {
		fmt.Fprintf(&sb, "\t%q: %s,\n", n, n)
	}
	sb.WriteString("}\n")
	p := filepath.Join(harnessDir, "h", "zz_registry.go")
	old, _ := os.ReadFile(p)
	if string(old) == sb.String() {
		return nil
	}
	return os.WriteFile(p, []byte(sb.String()), 0o644)
}

func buildReplayBinary() (string, error) {
	os.MkdirAll(filepath.Join(verifDir, "bin"), 0o755)
	bin := filepath.Join(verifDir, "bin", "replay.test")
	if harnessDir != "/verif/harness" {
		bin = filepath.Join(harnessDir, "replay.test")
	}
	cmd := exec.Command("go", "test", "-c", "-vet=off", "-o", bin, "./h")
	cmd.Dir = harnessDir
	cmd.Env = append(os.Environ(), "GOFLAGS=-mod=mod", "GOPROXY=off", "GOSUMDB=off", "GOTOOLCHAIN=local")
	out, err := cmd.CombinedOutput()
	if err != nil {
		return "", fmt.Errorf("building native replay binary: %v\n%s", err, out)
	}
	return bin, nil
}

type replayOut struct {
	Failed    []string          `json:"failed"`
	Reached   []string          `json:"reached"`
	BadAssume []string          `json:"bad_assume"`
	Observed  map[string]string `json:"observed"`
	Panic     string            `json:"panic"`
	Tags      []string          `json:"tags"`
	Notes     map[string]string `json:"notes"`
}

func runReplay(bin, witnessPath string) (*replayOut, string, error) {
	cmd := exec.Command(bin, "-test.run", "^TestReplay$", "-test.count=1", "-witness", witnessPath)
	cmd.Dir = filepath.Join(harnessDir, "h")
	out, err := cmd.CombinedOutput()
	txt := string(out)
	for _, line := range strings.Split(txt, "\n") {
		if strings.HasPrefix(line, "REPLAY-RESULT ") {
			var r replayOut
			if jerr := json.Unmarshal([]byte(strings.TrimPrefix(line, "REPLAY-RESULT ")), &r); jerr != nil {
				return nil, txt, jerr
			}
			return &r, txt, nil
		}
	}
	return nil, txt, fmt.Errorf("no REPLAY-RESULT line (err=%v)", err)
}

func writeWitness(w *interp.Witness, name string) string {
	dir := filepath.Join(outDir, strings.SplitN(w.Obligation, ".", 2)[0])
	os.MkdirAll(dir, 0o755)
	p := filepath.Join(dir, name+".witness.json")
	b, _ := json.MarshalIndent(w, "", " ")
	os.WriteFile(p, b, 0o644)
	return p
}

func cmdReplay(args []string) int {
	if len(args) < 1 {
		fmt.Fprintln(os.Stderr, "usage: symgo replay <witness.json>")
		return 2
	}
	bin, err := buildReplayBinary()
	if err != nil {
		fmt.Fprintln(os.Stderr, err)
		return 2
	}
	r, txt, err := runReplay(bin, args[0])
	if err != nil {
		fmt.Println(txt)
		fmt.Fprintln(os.Stderr, err)
		return 2
	}
	b, _ := json.MarshalIndent(r, "", " ")
	fmt.Println(string(b))
	if len(r.Failed) > 0 {
		return 1
	}
	return 0
}

func sortedKeys[V any](m map[string]V) []string {
	var ks []string
	for k := range m {
		ks = append(ks, k)
	}
	sort.Strings(ks)
	return ks
}

var censusC19 map[string]int

// census counts the nondeterminism sources in the SSA of the state-machine packages
// (non-test code): range over map, go statements, select, wall clock, randomness.
func census(l *Loaded) map[string]int {
	out := map[string]int{}
	pkgs := []string{"github.com/terra-money/alliance/x/alliance", "github.com/terra-money/alliance/x/alliance/keeper",
		"github.com/terra-money/alliance/x/alliance/types", "github.com/terra-money/alliance/custom/bank/keeper"}
	for _, pp := range pkgs {
		pkg := l.Prog.ImportedPackage(pp)
		if pkg == nil {
			continue
		}
		var fns []*ssa.Function
		for _, m := range pkg.Members {
			switch x := m.(type) {
			case *ssa.Function:
				fns = append(fns, x)
			case *ssa.Type:
				for _, T := range []types.Type{x.Type(), types.NewPointer(x.Type())} {
					ms := l.Prog.MethodSets.MethodSet(T)
					for i := 0; i < ms.Len(); i++ {
						if f := l.Prog.MethodValue(ms.At(i)); f != nil && f.Pkg == pkg {
							fns = append(fns, f)
						}
					}
				}
			}
		}
		seen := map[*ssa.Function]bool{}
		var visit func(f *ssa.Function)
		visit = func(f *ssa.Function) {
			if f == nil || seen[f] || f.Blocks == nil {
				return
			}
			seen[f] = true
			if strings.HasSuffix(l.Prog.Fset.Position(f.Pos()).Filename, ".pb.go") || strings.HasSuffix(l.Prog.Fset.Position(f.Pos()).Filename, ".pb.gw.go") {
				return
			}
			for _, b := range f.Blocks {
				for _, in := range b.Instrs {
					switch x := in.(type) {
					case *ssa.Range:
						if _, ok := x.X.Type().Underlying().(*types.Map); ok {
							out["range-over-map in "+f.String()]++
						}
					case *ssa.Go:
						out["go statement in "+f.String()]++
					case *ssa.Select:
						out["select in "+f.String()]++
					case ssa.CallInstruction:
						if c := x.Common().StaticCallee(); c != nil {
							n := c.String()
							if n == "time.Now" || strings.HasPrefix(n, "math/rand.") || strings.HasPrefix(n, "crypto/rand.") || strings.HasPrefix(n, "math/rand/v2.") {
								out["call of "+n+" in "+f.String()]++
							}
						}
					}
				}
			}
			for _, af := range f.AnonFuncs {
				visit(af)
			}
		}
		for _, f := range fns {
			visit(f)
		}
	}
	return out
}
