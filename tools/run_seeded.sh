#!/bin/bash
# Run the checks against every seeded change (or the ones named on the command line).
# For each change a scratch worktree of /repo is created under /var/tmp, the patch is
# applied there and the check runs with SYMGO_REPO pointing at it (so /repo stays untouched;
# equivalent to `git -C /repo apply <patch>; check; git -C /repo checkout -- .`). The scratch
# worktree is removed afterwards. Results: /verif/seeded/runs.json and RESULTS.md.
set -u
export GOFLAGS=-mod=mod GOPROXY=off GOSUMDB=off GOTOOLCHAIN=local
declare -A CHECKS=(
 [C01-slash-transfer-sum-rounding]="C01 C07"
 [C02-mature-at-completion-instant]="C02"
 [C03-reset-skips-validators-without-delegations]="C03"
 [C04-delegate-credits-delegation-shares-as-validator-shares]="C03 C04"
 [C05-claim-appends-unsorted-reward-coins]="C05"
 [C06-full-slash-skips-asset-total]="C06"
 [C07-slash-only-first-matching-entry]="C07"
 [C08-slash-aborts-when-destination-gone]="C08"
 [C09-dust-asset-breaks-loop]="C09"
 [C10-no-rebalance-request-during-warmup]="C10"
 [C11-burn-requested-instead-of-released]="C11"
 [C12-redelegate-into-existing-skips-claim]="C13 C12"
 [C13-redelegate-settles-wrong-validator]="C13"
 [C14-decay-clock-snaps-to-block-time]="C14"
 [C15-delete-redelegation-early-return]="C15"
 [C16-update-accepts-takerate-one]="C16"
 [C17-interval-counted-in-seconds]="C17"
 [C18-import-dedups-index-per-validator]="C18"
 [C19-reward-history-order-from-map]="C19"
 [C20-delegation-list-balance-cache]="C20"
 [C01-takerate-dust-asset-returns-early]="C01 C09"
 [C02-unbonding-index-only-for-new-bucket]="C02 C07"
 [C03-slash-redelegation-deletes-delegation-keeps-validator-shares]="C03 C07"
 [C04-redelegate-moves-source-priced-shares]="C04 C15"
 [C06-slash-skips-warming-up-assets]="C06"
 [C09-clock-advances-one-interval]="C09"
 [C12-zero-payout-skips-index-update]="C12 C13"
 [C14-weight-change-skips-unbonded-validators]="C14"
 [C16-create-accepts-weight-above-max]="C16"
 [C20-redelegations-query-ignores-denom]="C20"
 [C05-validate-amount-drops-truncation]="C05 C04"
 [C07-slash-redelegations-stops-at-vanished-destination]="C07 C08"
 [C08-slash-returns-early-for-emptied-validator]="C08 C07"
 [C10-weight-change-hook-works-on-copy]="C10 C14"
 [C11-claim-after-unbond-in-rebalance-down]="C11"
 [C13-delegate-skips-settlement-for-first-stake-of-asset]="C13"
 [C15-queue-redelegation-merges-ignoring-source]="C15"
 [C17-complete-unbondings-pays-zero-coin]="C17 C02"
 [C18-export-drops-unbondings-completing-now]="C18"
 [C19-keeper-level-asset-cache]="C19"
 [C02-slash-undelegations-breaks-after-first-match]="C02 C07"
 [C05-undelegate-updates-asset-after-dust-clear]="C05 C03"
 [C08-slash-undelegations-sends-zero-coin]="C08 C07"
 [C09-warmup-asset-stalls-takerate-clock]="C09"
 [C12-slash-redelegation-writes-back-stale-delegation]="C12 C13 C07"
 [C13-zero-payout-claim-skips-history-update]="C13 C12"
 [C14-update-alliance-keeps-old-decay-clock]="C14 C16"
 [C16-delete-alliance-authority-check-inside-staked-branch]="C16"
 [C18-import-stores-redelegation-without-index]="C18"
 [C20-binding-delegation-drops-rounder]="C20"
 [C01-undelegate-queues-rederived-amount]="C01 C02 C04"
 [C03-slash-multiplies-by-one-minus-fraction]="C03 C06"
 [C04-issued-shares-floored-at-one-per-token]="C04 C05"
 [C06-slash-ignores-non-bonded-validator]="C06 C08"
 [C07-unbonding-index-skipped-for-second-denom]="C07 C02"
 [C10-bonded-hook-needs-alliance-record]="C10"
 [C11-burn-skipped-when-nothing-matures]="C11 C02"
 [C15-has-redelegation-checks-first-entry-only]="C15"
 [C17-weight-change-hook-divides-by-zero-interval]="C17 C14"
 [C19-redelegation-queue-from-map-values]="C19 C15"
 [C05-clear-dust-early-return-skips-reset]="C05 C03"
 [C08-slash-redelegation-errors-on-deleted-asset]="C08"
 [C13-rebalance-down-drops-claim-before-unbond]="C13 C11"
 [C16-create-overwrites-warming-up-asset]="C16"
 [C18-import-overwrites-redelegation-queue-slot]="C18"
 [C12-reward-weight-uses-validator-shares]="C12 C13"
 [C04-redelegate-destination-validator-shares-inverted-price]="C04 C03"
 [C17-update-accepts-negative-interval-for-growth-rate]="C17 C16 C14"
 [C12-redelegate-new-position-claims-validator-after-create]="C12 C13"
 [C11-supplyof-skips-net-when-weights-zero]="C11"
 [C05-sub-unit-reward-rounded-up]="C13 C05 C12"
 [C03-slash-redelegation-reduces-total-by-tokens]="C03"
 [C13-redelegate-settles-validator-not-existing-position]="C13"
 [C18-import-restarts-decay-clock]="C18"
 [C15-complete-skips-second-source-of-fan-in]="C15"
 [C10-redelegate-between-bonded-validators-skips-rebalance]="C10"
 [C08-slash-rejects-fraction-one]="C08 C06"
 [C07-slash-skips-entry-completing-at-block-time]="C07"
 [C02-complete-skips-zero-entry-keeps-index]="C02"
 [C06-slash-redelegation-burns-validator-shares]="C06 C03 C07"
 [C09-transfer-truncates-deduction]="C09 C01"
 [C14-zero-weight-update-skips-settlement]="C14 C13"
 [C16-update-skips-changerate-check-at-zero-interval]="C16"
 [C20-unbonding-suffix-denom-not-length-prefixed]="C20"
)
mkdir -p /verif/out/seeded
ids=("$@"); [ ${#ids[@]} -eq 0 ] && ids=($(ls -d /verif/seeded/*/ | xargs -n1 basename))
for id in "${ids[@]}"; do
  wt=/var/tmp/seeded-wt-$$
  rm -rf $wt; git -C /repo worktree prune
  git -C /repo worktree add -q --detach $wt HEAD || exit 2
  if ! git -C $wt apply /verif/seeded/$id/patch.diff; then echo "patch of $id does not apply"; git -C /repo worktree remove --force $wt; continue; fi
  for prop in ${CHECKS[$id]}; do
    log=/verif/out/seeded/$id.$prop.log
    SYMGO_REPO=$wt timeout 2400 /verif/bin/symgo check -prop $prop > $log 2>&1
    echo "$id $prop exit=$?" | tee -a /verif/out/seeded/summary.txt
  done
  git -C /repo worktree remove --force $wt
done
python3 - <<'PY'
import json,re,glob,os
runs=[]
for line in open('/verif/out/seeded/summary.txt'):
    m=re.match(r'(\S+) (\S+) exit=(\d+)',line)
    if not m: continue
    sid,prop,ex=m.group(1),m.group(2),int(m.group(3))
    log=f'/verif/out/seeded/{sid}.{prop}.log'
    viol=[]
    if os.path.exists(log):
        for l in open(log):
            mm=re.search(r'obligation=(\S+) harness=',l)
            if mm: viol.append(mm.group(1))
    runs=[r for r in runs if not (r['seeded']==sid and r['property']==prop)]
    runs.append({"seeded":sid,"property":prop,"exit":ex,"violated":sorted(set(viol)),"log":log,"how":"SYMGO_REPO=<scratch worktree with the patch applied> symgo check -prop "+prop+" -tier quick"})
json.dump(runs,open('/verif/seeded/runs.json','w'),indent=1)
PY
python3 /verif/tools/seeded_results.py > /dev/null
