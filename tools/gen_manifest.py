#!/usr/bin/env python3
"""Generate /verif/MANIFEST.json (one check per property, all served by symgo)."""
import json
props = [json.loads(l) for l in open('/verif/properties.jsonl')]
arith = {
 "C01":"UF-abstracted exact-Z (linear custody equation)", "C02":"UF-abstracted exact-Z, symbolic time bytes",
 "C03":"UF-abstracted exact-Z + exact confirmation with hints", "C04":"ideal-Q + UF-abstracted exact-Z",
 "C05":"UF-abstracted exact-Z + ideal-Q", "C06":"UF-abstracted exact-Z + ideal-Q", "C07":"UF-abstracted exact-Z, symbolic time bytes",
 "C08":"UF-abstracted exact-Z", "C09":"pure exact-Z (clock) + UF-abstracted exact-Z", "C10":"UF-abstracted exact-Z, staking model",
 "C11":"UF-abstracted exact-Z (linear), staking/bank model", "C12":"ideal-Q", "C13":"UF-abstracted exact-Z + ideal-Q",
 "C14":"pure exact-Z (clock) + UF-abstracted exact-Z", "C15":"UF-abstracted exact-Z, symbolic time bytes", "C16":"UF-abstracted exact-Z (linear), nil flags forked",
 "C17":"UF-abstracted exact-Z + pure exact-Z", "C18":"UF-abstracted exact-Z", "C19":"self-composition, symbolic map order + SSA census",
 "C20":"UF-abstracted exact-Z + ideal-Q, A-json",
}
notes = {
 "C11":"the bank supply QUERY sub-claim (custom/bank/keeper SupplyOf/TotalSupply) is not encoded: the keeper embeds the concrete x/bank BaseKeeper and concrete account/staking keepers and cannot be constructed over the environment model (DESIGN.md §9)",
 "C10":"relative to the plain-Go staking model (transcription of x/staking Delegate/Unbond/ValidateUnbondAmount incl. hook protocol) at exchange rate 1 with concrete native stake",
 "C19":"goroutine scheduling and code never executed by a self-composition harness are outside; the census reports such sites as inconclusive",
}
checks=[]
for p in props:
    pid=p['id']
    checks.append({
     "property_id": pid,
     "quick_cmd": f"/verif/bin/symgo check -prop {pid} -tier quick",
     "thorough_cmd": f"/verif/bin/symgo check -prop {pid} -tier thorough",
     "evidence_file": f"/verif/evidence/{pid}.json",
     "replay_cmd_template": "/verif/bin/symgo replay {path}",
     "engine": "symgo",
     "level_claimed": {"category":"model_checking",
       "text": "bounded symbolic execution of the repository's real functions (go/ssa of /repo's working tree, regenerated every run): every obligation instance is an SMT query 'path condition AND NOT assertion' decided by z3 for ALL values of the symbolic inputs within the stated ranges and universe; unsat = holds on that path for every value, sat = concrete counterexample replayed on the natively compiled repository code before it is reported. Right level: the property quantifies over amounts, prices, times and packings that tests only sample; a solver verdict covers them all inside the bounds, and nothing is claimed outside them.",
       "design_ref": f"DESIGN.md §5 {pid}, §3, §7"},
     "level_note": "bounds: universe of 2 delegators, 3 validators, 2 alliance denoms, records as stated per harness; token amounts <= 10^30, share prices within 10^-6..10^6, Power exponent <= 8 (quick) / 64 (thorough). Trusted base: go/ssa + the forked x/tools interpreter, the summaries of cosmossdk.io/math (Appendix A), the plain-Go environment models (store, codec deep copy, bank, staking, distribution), z3 5.1.0. " + notes.get(pid,""),
     "technique": "SMT-based symbolic execution of go/ssa: " + arith[pid] + "; counterexamples replayed natively",
    })
m={
 "version":1,
 "setup_cmd":"cd /verif/symgo && GOFLAGS=-mod=mod GOPROXY=off GOSUMDB=off GOTOOLCHAIN=local go build -o /verif/bin/symgo . && cd /verif/harness && GOFLAGS=-mod=mod GOPROXY=off GOSUMDB=off GOTOOLCHAIN=local go test -c -vet=off -o /verif/bin/replay.test ./h",
 "hooks":{"guard":"verif","enable":"no source hooks are needed: harnesses live in /verif/harness (module hv, 'replace github.com/terra-money/alliance => /repo') and use the repository's exported API only; the guard tag 'verif' is reserved and unused",
          "baseline_off_cmd":"cd /repo && go test -vet=off -count=1 -timeout 25m ./...","source_commits":[],"add_only":True},
 "engines":[{"name":"symgo","path":"/verif/symgo","serves_properties":[p['id'] for p in props],
             "kind_free_text":"symbolic executor over go/ssa (fork of x/tools go/ssa/interp v0.29.0), fork by re-execution, UF abstraction of nonlinear terms with exact re-decision by a fresh z3 5.1.0, ideal-Q mode, native replay of every counterexample"}],
 "checks":checks,
 "not_applicable":[],
 "notes":"Known findings: /verif/known_findings.json (never written at run time). Fix commits in /repo are listed there under 'fixed'. Seeded changes used to test the checks: /verif/seeded/*."
}
json.dump(m,open('/verif/MANIFEST.json','w'),indent=1)
print("wrote MANIFEST.json with",len(checks),"checks")
