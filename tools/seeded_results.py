#!/usr/bin/env python3
"""Collect the outcome of running the checks against the seeded changes (logs of
`SYMGO_REPO=<scratch worktree with the change> symgo check -prop <id>`) into
/verif/seeded/RESULTS.md and the meta.json files."""
import json,glob,os,re,sys
runs = json.load(open('/verif/seeded/runs.json'))   # [{seeded, property, log, exit}]
rows=[]
for sid in sorted(os.listdir('/verif/seeded')):
    d='/verif/seeded/'+sid
    if not os.path.isdir(d): continue
    meta=json.load(open(d+'/meta.json'))
    meta['checks_run']=[]; meta['detected_by']=[]
    for r in runs:
        if r['seeded']!=sid: continue
        viol=sorted(set(r.get('violated',[])))
        meta['checks_run'].append({"check":r['property'],"exit":r['exit'],"violated_obligations":viol,"how":r.get('how','')})
        if r['exit']==1 and viol:
            meta['detected_by'].append(r['property'])
    json.dump(meta,open(d+'/meta.json','w'),indent=1)
    rows.append((sid,meta))
with open('/verif/seeded/RESULTS.md','w') as f:
    f.write("# Seeded changes and the checks that catch them\n\nEach change was written by a fresh sub-agent from the property text alone, confirmed in a scratch worktree (builds, existing suite passes, demo fails with / passes without the change) and then run against the checks. `detected` = the check exits 1 with a `VIOLATION` line whose witness reproduced natively on the changed code, for an obligation that is discharged on the unchanged tree.\n\n| seeded change | breaks | needs | checks run | detected by (violated obligations) |\n|---|---|---|---|---|\n")
    for sid,m in rows:
        det='; '.join(f"{c['check']} ({', '.join(c['violated_obligations'][:4])})" for c in m['checks_run'] if c['exit']==1 and c['violated_obligations']) or '**missed**'
        f.write(f"| {sid} | {m['property']} | {m['needs_to_manifest']} | {', '.join(c['check'] for c in m['checks_run'])} | {det} |\n")
# the same table goes into DESIGN.md §10.3 between the markers
tbl=[l for l in open('/verif/seeded/RESULTS.md').read().split('\n') if l.startswith('|')]
d=open('/verif/DESIGN.md').read()
b,e='<!-- SEEDED-TABLE-BEGIN -->','<!-- SEEDED-TABLE-END -->'
if b in d and e in d:
    i,j=d.index(b)+len(b),d.index(e)
    d=d[:i]+'\n'+'\n'.join(tbl)+'\n'+d[j:]
    open('/verif/DESIGN.md','w').write(d)
print(open('/verif/seeded/RESULTS.md').read())
